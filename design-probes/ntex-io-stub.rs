//! model of the slice of ntex-io that MqttShared touches
use std::{cell::{Cell, RefCell}, rc::Rc};
use ntex_bytes::BytePages;
use ntex_codec::Encoder;

pub struct IoState { pub closed: Cell<bool>, pub terminated: Cell<bool>, pub out: RefCell<BytePages>, pub frames: Cell<u32> }
#[derive(Clone)]
pub struct IoRef(pub Rc<IoState>);
impl IoRef {
    pub fn new_model() -> IoRef { IoRef(Rc::new(IoState { closed: Cell::new(false), terminated: Cell::new(false), out: RefCell::new(BytePages::default()), frames: Cell::new(0) })) }
    pub fn tag(&self) -> &'static str { "verif" }
    pub fn is_closed(&self) -> bool { self.0.closed.get() }
    pub fn close(&self) { self.0.closed.set(true) }
    pub fn terminate(&self) { self.0.closed.set(true); self.0.terminated.set(true) }
    pub fn encode<U: Encoder>(&self, item: U::Item, codec: &U) -> Result<(), U::Error> {
        if self.0.closed.get() { return Ok(()); }
        // codec not executed here: frame-level model (codec is covered by its own harnesses)
        let _ = (item, codec);
        self.0.frames.set(self.0.frames.get() + 1);
        Ok(())
    }
}
