#![allow(dead_code, unused_imports, unused_macros)]
#[macro_use]
#[path = "/tmp/probe2/sink/srcc/utils.rs"]
mod utils;
#[path = "/tmp/probe2/sink/srcc/error.rs"]
pub mod error;
#[path = "/tmp/probe2/sink/srcc/types.rs"]
mod types;
#[path = "/tmp/probe2/sink/srcc/payload.rs"]
mod payload;
pub use types::QoS;
pub mod v5 {
    pub(crate) const RECEIVE_MAX_DEFAULT: std::num::NonZeroU16 = std::num::NonZeroU16::new(65_535).unwrap();
    #[path = "/tmp/probe2/sink/srcc/v5/codec/mod.rs"]
    pub mod codec;
    #[path = "/tmp/probe2/sink/srcc/v5/shared.rs"]
    mod shared;
    #[path = "/tmp/probe2/sink/srcc/v5/sink.rs"]
    mod sink;
}
