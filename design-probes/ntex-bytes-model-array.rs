//! Verification model of the ntex-bytes API subset used by ntex-mqtt's codec.
//! Bytes = immutable view into leaked storage (no refcounts, no drop glue).
use std::{fmt, ops::Deref, borrow::Borrow, hash::{Hash, Hasher}};

pub trait Buf {
    fn remaining(&self) -> usize;
    fn chunk(&self) -> &[u8];
    fn advance(&mut self, cnt: usize);
    fn has_remaining(&self) -> bool { self.remaining() > 0 }
    fn get_u8(&mut self) -> u8 {
        assert!(self.remaining() >= 1);
        let v = self.chunk()[0];
        self.advance(1);
        v
    }
    fn get_u16(&mut self) -> u16 {
        assert!(self.remaining() >= 2);
        let c = self.chunk();
        let v = u16::from_be_bytes([c[0], c[1]]);
        self.advance(2);
        v
    }
    fn get_u32(&mut self) -> u32 {
        assert!(self.remaining() >= 4);
        let c = self.chunk();
        let v = u32::from_be_bytes([c[0], c[1], c[2], c[3]]);
        self.advance(4);
        v
    }
}

impl Buf for std::io::Cursor<&[u8]> {
    fn remaining(&self) -> usize {
        let len = self.get_ref().len();
        let pos = self.position();
        if pos >= len as u64 { 0 } else { len - pos as usize }
    }
    fn chunk(&self) -> &[u8] {
        let pos = self.position() as usize;
        &self.get_ref()[pos..]
    }
    fn advance(&mut self, cnt: usize) {
        let pos = (self.position() as usize).checked_add(cnt).expect("overflow");
        assert!(pos <= self.get_ref().len());
        self.set_position(pos as u64);
    }
}

pub trait BufMut {
    fn put_slice(&mut self, src: &[u8]);
    fn put_u8(&mut self, n: u8) { self.put_slice(&[n]) }
    fn put_u16(&mut self, n: u16) { self.put_slice(&n.to_be_bytes()) }
    fn put_u32(&mut self, n: u32) { self.put_slice(&n.to_be_bytes()) }
}


/// capacity of every byte container in the model; exceeding it is a reported failure, never a silent truncation
pub const CAP: usize = 16;

#[derive(Clone, Copy)]
pub struct Bytes { data: [u8; CAP], start: usize, end: usize }

impl Bytes {
    pub const fn new() -> Bytes { Bytes { data: [0; CAP], start: 0, end: 0 } }
    pub const fn from_static(b: &'static [u8]) -> Bytes {
        assert!(b.len() <= CAP, "model capacity exceeded");
        let mut data = [0u8; CAP];
        let mut i = 0;
        while i < b.len() { data[i] = b[i]; i += 1; }
        Bytes { data, start: 0, end: b.len() }
    }
    pub fn copy_from_slice(b: &[u8]) -> Bytes {
        assert!(b.len() <= CAP, "model capacity exceeded");
        let mut data = [0u8; CAP];
        data[..b.len()].copy_from_slice(b);
        Bytes { data, start: 0, end: b.len() }
    }
    pub fn len(&self) -> usize { self.end - self.start }
    pub fn is_empty(&self) -> bool { self.end == self.start }
    pub fn split_to(&mut self, at: usize) -> Bytes {
        assert!(at <= self.len(), "split_to out of bounds");
        let r = Bytes { data: self.data, start: self.start, end: self.start + at };
        self.start += at;
        r
    }
    pub fn slice_ref(&self, subset: &[u8]) -> Bytes {
        if subset.is_empty() { return Bytes::new(); }
        let base = self.as_ref().as_ptr() as usize;
        let sub = subset.as_ptr() as usize;
        assert!(sub >= base && sub + subset.len() <= base + self.len());
        let off = sub - base;
        Bytes { data: self.data, start: self.start + off, end: self.start + off + subset.len() }
    }
    pub fn trimdown(&mut self) {}
}
impl Default for Bytes { fn default() -> Self { Bytes::new() } }
impl Buf for Bytes {
    fn remaining(&self) -> usize { self.len() }
    fn chunk(&self) -> &[u8] { &self.data[self.start..self.end] }
    fn advance(&mut self, cnt: usize) { assert!(cnt <= self.len(), "cannot advance past `remaining`"); self.start += cnt; }
}
impl Deref for Bytes { type Target = [u8]; fn deref(&self) -> &[u8] { &self.data[self.start..self.end] } }
impl AsRef<[u8]> for Bytes { fn as_ref(&self) -> &[u8] { &self.data[self.start..self.end] } }
impl Borrow<[u8]> for Bytes { fn borrow(&self) -> &[u8] { self.as_ref() } }
impl PartialEq for Bytes { fn eq(&self, o: &Bytes) -> bool { self.as_ref() == o.as_ref() } }
impl Eq for Bytes {}
impl PartialEq<[u8]> for Bytes { fn eq(&self, o: &[u8]) -> bool { self.as_ref() == o } }
impl PartialEq<&[u8]> for Bytes { fn eq(&self, o: &&[u8]) -> bool { self.as_ref() == *o } }
impl Hash for Bytes { fn hash<H: Hasher>(&self, h: &mut H) { self.as_ref().hash(h) } }
impl fmt::Debug for Bytes { fn fmt(&self, f: &mut fmt::Formatter<'_>) -> fmt::Result { fmt::Debug::fmt(self.as_ref(), f) } }
impl From<&'static [u8]> for Bytes { fn from(b: &'static [u8]) -> Self { Bytes::copy_from_slice(b) } }
impl From<&'static str> for Bytes { fn from(b: &'static str) -> Self { Bytes::copy_from_slice(b.as_bytes()) } }
impl From<Vec<u8>> for Bytes { fn from(b: Vec<u8>) -> Self { Bytes::copy_from_slice(&b) } }
impl From<String> for Bytes { fn from(b: String) -> Self { Bytes::copy_from_slice(b.as_bytes()) } }

#[derive(Clone, Copy)]
pub struct BytesMut { data: [u8; CAP], start: usize, end: usize }
impl BytesMut {
    pub fn new() -> Self { BytesMut { data: [0; CAP], start: 0, end: 0 } }
    pub fn with_capacity(_n: usize) -> Self { Self::new() }
    pub fn len(&self) -> usize { self.end - self.start }
    pub fn is_empty(&self) -> bool { self.end == self.start }
    pub fn reserve(&mut self, _n: usize) {}
    pub fn extend_from_slice(&mut self, s: &[u8]) {
        assert!(self.end + s.len() <= CAP, "model capacity exceeded");
        self.data[self.end..self.end + s.len()].copy_from_slice(s);
        self.end += s.len();
    }
    pub fn split_to(&mut self, at: usize) -> Bytes {
        assert!(at <= self.len(), "split_to out of bounds");
        let r = Bytes { data: self.data, start: self.start, end: self.start + at };
        self.start += at;
        r
    }
    pub fn freeze(self) -> Bytes { Bytes { data: self.data, start: self.start, end: self.end } }
}
impl Default for BytesMut { fn default() -> Self { Self::new() } }
impl Buf for BytesMut {
    fn remaining(&self) -> usize { self.len() }
    fn chunk(&self) -> &[u8] { &self.data[self.start..self.end] }
    fn advance(&mut self, cnt: usize) { assert!(cnt <= self.len(), "cannot advance past `remaining`"); self.start += cnt; }
}
impl BufMut for BytesMut { fn put_slice(&mut self, s: &[u8]) { self.extend_from_slice(s) } }
impl Deref for BytesMut { type Target = [u8]; fn deref(&self) -> &[u8] { &self.data[self.start..self.end] } }
impl AsRef<[u8]> for BytesMut { fn as_ref(&self) -> &[u8] { &self.data[self.start..self.end] } }
impl From<&[u8]> for BytesMut { fn from(b: &[u8]) -> Self { let mut m = BytesMut::new(); m.extend_from_slice(b); m } }
impl From<Bytes> for BytesMut { fn from(b: Bytes) -> Self { BytesMut { data: b.data, start: b.start, end: b.end } } }
impl fmt::Debug for BytesMut { fn fmt(&self, f: &mut fmt::Formatter<'_>) -> fmt::Result { fmt::Debug::fmt(self.as_ref(), f) } }

pub const OCAP: usize = 48;
pub struct BytePages { data: [u8; OCAP], len: usize }
impl Default for BytePages { fn default() -> Self { BytePages { data: [0; OCAP], len: 0 } } }
impl fmt::Debug for BytePages { fn fmt(&self, f: &mut fmt::Formatter<'_>) -> fmt::Result { fmt::Debug::fmt(self.as_slice(), f) } }
impl BytePages {
    pub fn len(&self) -> usize { self.len }
    pub fn is_empty(&self) -> bool { self.len == 0 }
    pub fn append(&mut self, b: Bytes) { self.extend_from_slice(&b) }
    pub fn extend_from_slice(&mut self, s: &[u8]) {
        assert!(self.len + s.len() <= OCAP, "model capacity exceeded");
        self.data[self.len..self.len + s.len()].copy_from_slice(s);
        self.len += s.len();
    }
    pub fn as_slice(&self) -> &[u8] { &self.data[..self.len] }
    pub fn with_bytes_mut<R>(&mut self, _f: impl FnOnce(&mut BytesMut) -> R) -> R { unimplemented!() }
}
impl BufMut for BytePages { fn put_slice(&mut self, s: &[u8]) { self.extend_from_slice(s) } }

#[derive(Clone, Copy, PartialEq, Eq, Hash, Default)]
pub struct ByteString(Bytes);
impl ByteString {
    pub const fn new() -> Self { ByteString(Bytes::new()) }
    pub fn from_static(s: &'static str) -> Self { ByteString(Bytes::from_static(s.as_bytes())) }
    pub fn as_bytes(&self) -> &Bytes { &self.0 }
    pub fn as_str(&self) -> &str { unsafe { std::str::from_utf8_unchecked(self.0.as_ref()) } }
    pub fn into_bytes(self) -> Bytes { self.0 }
    pub unsafe fn from_bytes_unchecked(b: Bytes) -> Self { ByteString(b) }
    pub fn trimdown(&mut self) {}
}
impl Deref for ByteString { type Target = str; fn deref(&self) -> &str { self.as_str() } }
impl AsRef<str> for ByteString { fn as_ref(&self) -> &str { self.as_str() } }
impl Borrow<str> for ByteString { fn borrow(&self) -> &str { self.as_str() } }
impl PartialEq<str> for ByteString { fn eq(&self, o: &str) -> bool { self.as_str() == o } }
impl PartialEq<&str> for ByteString { fn eq(&self, o: &&str) -> bool { self.as_str() == *o } }
impl PartialEq<ByteString> for str { fn eq(&self, o: &ByteString) -> bool { self == o.as_str() } }
impl PartialEq<ByteString> for &str { fn eq(&self, o: &ByteString) -> bool { *self == o.as_str() } }
impl From<&str> for ByteString { fn from(s: &str) -> Self { ByteString(Bytes::copy_from_slice(s.as_bytes())) } }
impl From<String> for ByteString { fn from(s: String) -> Self { ByteString(Bytes::from(s.into_bytes())) } }
impl TryFrom<Bytes> for ByteString { type Error = (); fn try_from(b: Bytes) -> Result<Self, ()> { if utf8_is_valid(&b) { Ok(ByteString(b)) } else { Err(()) } } }
impl fmt::Debug for ByteString { fn fmt(&self, f: &mut fmt::Formatter<'_>) -> fmt::Result { fmt::Debug::fmt(self.as_str(), f) } }
impl fmt::Display for ByteString { fn fmt(&self, f: &mut fmt::Formatter<'_>) -> fmt::Result { fmt::Display::fmt(self.as_str(), f) } }
impl serde::Serialize for ByteString { fn serialize<S: serde::Serializer>(&self, s: S) -> Result<S::Ok, S::Error> { s.serialize_str(self.as_str()) } }
impl<'de> serde::Deserialize<'de> for ByteString { fn deserialize<D: serde::Deserializer<'de>>(d: D) -> Result<Self, D::Error> { String::deserialize(d).map(ByteString::from) } }

/// Byte-wise UTF-8 well-formedness check (Unicode 15 Table 3-7). Equivalent to
/// `std::str::from_utf8(b).is_ok()`; the equivalence is itself discharged by a Kani harness.
pub fn utf8_is_valid(b: &[u8]) -> bool {
    let n = b.len();
    let mut i = 0;
    while i < n {
        let c = b[i];
        if c < 0x80 { i += 1; continue; }
        let (need, lo, hi) = match c {
            0xC2..=0xDF => (1, 0x80u8, 0xBFu8),
            0xE0 => (2, 0xA0, 0xBF),
            0xE1..=0xEC | 0xEE..=0xEF => (2, 0x80, 0xBF),
            0xED => (2, 0x80, 0x9F),
            0xF0 => (3, 0x90, 0xBF),
            0xF1..=0xF3 => (3, 0x80, 0xBF),
            0xF4 => (3, 0x80, 0x8F),
            _ => return false,
        };
        if n - i <= need { return false; }
        let c1 = b[i + 1];
        if c1 < lo || c1 > hi { return false; }
        if need >= 2 && (b[i + 2] & 0xC0) != 0x80 { return false; }
        if need >= 3 && (b[i + 3] & 0xC0) != 0x80 { return false; }
        i += need + 1;
    }
    true
}
