pub mod future {
    use std::{future::Future, pin::Pin, task::{Context, Poll}};
    #[derive(Debug, Clone, Copy, PartialEq, Eq)]
    pub enum Either<A, B> { Left(A), Right(B) }
    impl<A> Either<A, A> { pub fn into_inner(self) -> A { match self { Either::Left(a) | Either::Right(a) => a } } }
    impl<A, B> Either<A, B> { pub fn is_left(&self) -> bool { matches!(self, Either::Left(_)) } pub fn is_right(&self) -> bool { matches!(self, Either::Right(_)) } }
    impl<A: Future, B: Future<Output = A::Output>> Future for Either<A, B> {
        type Output = A::Output;
        fn poll(self: Pin<&mut Self>, cx: &mut Context<'_>) -> Poll<Self::Output> {
            unsafe { match self.get_unchecked_mut() { Either::Left(a) => Pin::new_unchecked(a).poll(cx), Either::Right(b) => Pin::new_unchecked(b).poll(cx) } }
        }
    }
    pub enum Ready<T, E> { Ok(T), Err(E), Done }
    impl<T, E> Unpin for Ready<T, E> {}
    impl<T, E> Future for Ready<T, E> {
        type Output = Result<T, E>;
        fn poll(mut self: Pin<&mut Self>, _: &mut Context<'_>) -> Poll<Self::Output> {
            match std::mem::replace(&mut *self, Ready::Done) { Ready::Ok(t) => Poll::Ready(Ok(t)), Ready::Err(e) => Poll::Ready(Err(e)), Ready::Done => panic!("polled after completion") }
        }
    }
}
/// linear-scan set standing in for HashSet (hashing is irrelevant to the properties and opaque to a SAT solver)
#[derive(Debug)]
pub struct HashSet<T> { items: Vec<T> }
impl<T> Default for HashSet<T> { fn default() -> Self { HashSet { items: Vec::new() } } }
impl<T: PartialEq + Copy> HashSet<T> {
    pub fn contains(&self, v: &T) -> bool { self.items.iter().any(|x| x == v) }
    pub fn insert(&mut self, v: T) -> bool { if self.contains(&v) { false } else { self.items.push(v); true } }
    pub fn remove(&mut self, v: &T) -> bool { if let Some(p) = self.items.iter().position(|x| x == v) { self.items.swap_remove(p); true } else { false } }
    pub fn len(&self) -> usize { self.items.len() }
    pub fn clear(&mut self) { self.items.clear() }
}
pub mod channel {
    #[derive(Debug, Clone, Copy, PartialEq, Eq)]
    pub struct Canceled;
    pub mod pool {
        use std::{cell::{Cell, RefCell}, rc::Rc, future::Future, pin::Pin, task::{Context, Poll}, marker::PhantomData};
        use super::Canceled;
        pub struct Pool<T>(PhantomData<T>);
        pub fn new<T>() -> Pool<T> { Pool(PhantomData) }
        impl<T> Default for Pool<T> { fn default() -> Self { new() } }
        struct Inner<T> { value: RefCell<Option<T>>, tx: Cell<bool>, rx: Cell<bool>, woken: Cell<u32> }
        pub struct Sender<T>(Rc<Inner<T>>);
        pub struct Receiver<T>(Rc<Inner<T>>);
        impl<T> std::fmt::Debug for Sender<T> { fn fmt(&self, f: &mut std::fmt::Formatter<'_>) -> std::fmt::Result { f.write_str("Sender") } }
        impl<T> std::fmt::Debug for Receiver<T> { fn fmt(&self, f: &mut std::fmt::Formatter<'_>) -> std::fmt::Result { f.write_str("Receiver") } }
        impl<T> Pool<T> {
            pub fn channel(&self) -> (Sender<T>, Receiver<T>) {
                let i = Rc::new(Inner { value: RefCell::new(None), tx: Cell::new(true), rx: Cell::new(true), woken: Cell::new(0) });
                (Sender(i.clone()), Receiver(i))
            }
        }
        impl<T> Sender<T> {
            pub fn send(self, val: T) -> Result<(), T> {
                if self.0.rx.get() { *self.0.value.borrow_mut() = Some(val); self.0.woken.set(self.0.woken.get() + 1); Ok(()) } else { Err(val) }
            }
            pub fn is_canceled(&self) -> bool { !self.0.rx.get() }
        }
        impl<T> Drop for Sender<T> { fn drop(&mut self) { self.0.tx.set(false); } }
        impl<T> Drop for Receiver<T> { fn drop(&mut self) { self.0.rx.set(false); } }
        impl<T> Unpin for Receiver<T> {}
        impl<T> Future for Receiver<T> {
            type Output = Result<T, Canceled>;
            fn poll(self: Pin<&mut Self>, _cx: &mut Context<'_>) -> Poll<Self::Output> {
                if let Some(v) = self.0.value.borrow_mut().take() { return Poll::Ready(Ok(v)); }
                if self.0.tx.get() { Poll::Pending } else { Poll::Ready(Err(Canceled)) }
            }
        }
    }
    pub mod bstream {
        use std::marker::PhantomData;
        #[derive(Debug, Clone, Copy, PartialEq, Eq)]
        pub enum Status { Ready, Dropped }
        #[derive(Clone)]
        pub struct Sender<E>(PhantomData<E>);
        pub struct Receiver<E>(PhantomData<E>);
        pub fn channel<E>() -> (Sender<E>, Receiver<E>) { (Sender(PhantomData), Receiver(PhantomData)) }
        impl<E> Sender<E> {
            pub fn set_error(&self, _e: E) {}
            pub fn feed_data(&self, _b: ntex_bytes::Bytes) {}
            pub fn feed_eof(&self) {}
            pub async fn ready(&self) -> Status { Status::Ready }
        }
        impl<E> Receiver<E> {
            pub fn max_buffer_size(&self, _n: usize) {}
            pub async fn read(&self) -> Option<Result<ntex_bytes::Bytes, E>> { None }
        }
    }
}
