#![allow(dead_code, unused_imports, unused_macros)]
#[path = "/tmp/probe2/slice/srcc/topic.rs"]
mod topic;
#[macro_use]
#[path = "/tmp/probe2/slice/srcc/utils.rs"]
mod utils;
#[path = "/tmp/probe2/slice/srcc/error.rs"]
pub mod error;
#[path = "/tmp/probe2/slice/srcc/types.rs"]
mod types;
#[path = "/tmp/probe2/slice/srcc/version.rs"]
mod version;
pub use types::QoS;
pub mod v3 {
    #[path = "/tmp/probe2/slice/srcc/v3/codec/mod.rs"]
    pub mod codec;
}
pub mod v5 {
    pub(crate) const RECEIVE_MAX_DEFAULT: std::num::NonZeroU16 = std::num::NonZeroU16::new(65_535).unwrap();
    #[path = "/tmp/probe2/slice/srcc/v5/codec/mod.rs"]
    pub mod codec;
}

