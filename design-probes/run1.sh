#!/bin/bash
h=$1; t=$2; shift 2
export CARGO_NET_OFFLINE=true
ulimit -v 16000000
/usr/bin/time -v timeout $t cargo kani --harness $h --output-format terse --target-dir /tmp/probe2/t_$h "$@" > /tmp/probe2/$h.log 2>&1
