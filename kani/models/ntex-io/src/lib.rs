//! Model of the part of `ntex_io::IoRef` that v*/shared.rs, v*/sink.rs and io.rs DispatcherState use.
//! Semantics copied from ntex-io 3.13 (ioref.rs):
//!  * `encode(item, codec)`: if the io object is stopping or closed NOTHING is written and `Ok(())`
//!    is returned (`with_write_buf(..).unwrap_or_else(|_| Ok(()))`); otherwise `codec.encodev` runs
//!    on the write buffer and its result is returned;
//!  * `close()` starts a graceful shutdown (state Stopping; `is_closed()` stays false until the io
//!    task finishes, which a harness may trigger with `model_finish_shutdown`);
//!  * `terminate()` closes at once.
//! The write buffer is not a byte queue but a LOG of frames: for every `encode` call the model
//! runs the codec on a fresh `BytePages` and records the first byte, the next bytes (enough for a
//! packet id behind a 1-byte Remaining Length) and the total length, plus the bytes a FAILED encode
//! left behind (must be 0).
use ntex_bytes::BytePages;
use ntex_codec::Encoder;
use std::cell::{Cell, RefCell};
use std::rc::Rc;
use ntex_util::time::Seconds;

pub const LOG_CAP: usize = 6;

#[derive(Debug, Copy, Clone, PartialEq, Eq, Default)]
pub struct Frame {
    pub first: u8,
    pub b1: u8,
    pub b2: u8,
    pub b3: u8,
    pub len: usize,
}

#[derive(Debug)]
pub struct IoState {
    /// 0 = open, 1 = stopping (graceful shutdown started), 2 = closed
    pub st: Cell<u8>,
    pub log: RefCell<[Frame; LOG_CAP]>,
    pub nlog: Cell<usize>,
    /// bytes left in the buffer by encode calls that returned Err
    pub torn: Cell<usize>,
    /// encode calls made while not open (silently dropped, as in ntex-io)
    pub dropped: Cell<usize>,
    pub close_calls: Cell<usize>,
    pub terminate_calls: Cell<usize>,
    pub notify_calls: Cell<usize>,
    /// timers started through `start_timer`: count and the last duration
    pub timer_starts: Cell<usize>,
    pub timer_last: Cell<u16>,
    pub cfg: IoConfig,
}

#[derive(Debug, Clone)]
pub struct IoRef(pub Rc<IoState>);

impl IoRef {
    pub fn model_new_cfg(cfg: IoConfig) -> IoRef {
        let io = IoRef::model_new();
        // the only reference so far
        let mut io = io;
        Rc::get_mut(&mut io.0).unwrap().cfg = cfg;
        io
    }
    pub fn cfg(&self) -> &IoConfig {
        &self.0.cfg
    }
    pub fn start_timer(&self, t: Seconds) {
        self.0.timer_starts.set(self.0.timer_starts.get() + 1);
        self.0.timer_last.set(t.0);
    }
    pub fn stop_timer(&self) {}
    pub fn model_new() -> IoRef {
        IoRef(Rc::new(IoState {
            st: Cell::new(0),
            log: RefCell::new([Frame::default(); LOG_CAP]),
            nlog: Cell::new(0),
            torn: Cell::new(0),
            dropped: Cell::new(0),
            close_calls: Cell::new(0),
            terminate_calls: Cell::new(0),
            notify_calls: Cell::new(0),
            timer_starts: Cell::new(0),
            timer_last: Cell::new(0),
            cfg: IoConfig { frame_read_rate: None, keepalive: Seconds(0) },
        }))
    }
    pub fn model_finish_shutdown(&self) {
        if self.0.st.get() == 1 {
            self.0.st.set(2);
        }
    }
    pub fn notify_dispatcher(&self) {
        self.0.notify_calls.set(self.0.notify_calls.get() + 1);
    }
    pub fn tag(&self) -> &'static str {
        "MODEL"
    }
    pub fn is_closed(&self) -> bool {
        self.0.st.get() == 2
    }
    pub fn close(&self) {
        self.0.close_calls.set(self.0.close_calls.get() + 1);
        if self.0.st.get() == 0 {
            self.0.st.set(1);
        }
    }
    pub fn terminate(&self) {
        self.0.terminate_calls.set(self.0.terminate_calls.get() + 1);
        self.0.st.set(2);
    }
    pub fn encode<U>(&self, item: U::Item, codec: &U) -> Result<(), <U as Encoder>::Error>
    where
        U: Encoder,
    {
        if self.0.st.get() != 0 {
            self.0.dropped.set(self.0.dropped.get() + 1);
            return Ok(());
        }
        let mut pages = BytePages::default();
        let res = codec.encodev(item, &mut pages);
        let s = pages.as_slice();
        if res.is_ok() {
            let n = self.0.nlog.get();
            assert!(n < LOG_CAP, "MODEL CAPACITY: IoRef frame log holds at most LOG_CAP frames");
            let at = |i: usize| if i < s.len() { s[i] } else { 0 };
            self.0.log.borrow_mut()[n] = Frame { first: at(0), b1: at(1), b2: at(2), b3: at(3), len: s.len() };
            self.0.nlog.set(n + 1);
        } else {
            self.0.torn.set(self.0.torn.get() + s.len());
        }
        res
    }
}

/// `ntex_io::IoBoxed` as far as the extracted `call_service` uses it
pub struct IoBoxed(pub IoRef);
impl IoBoxed {
    pub fn get_ref(&self) -> IoRef {
        self.0.clone()
    }
    pub fn tag(&self) -> &'static str {
        "MODEL"
    }
    pub fn encode<U>(&self, item: U::Item, codec: &U) -> Result<(), <U as Encoder>::Error>
    where
        U: Encoder,
    {
        self.0.encode(item, codec)
    }
}
impl AsRef<IoRef> for IoBoxed {
    fn as_ref(&self) -> &IoRef {
        &self.0
    }
}

/// `ntex_io::cfg::FrameReadRate` / the two getters of `IoConfig` that io.rs consults
#[derive(Copy, Clone, Debug)]
pub struct FrameReadRate {
    pub timeout: Seconds,
    pub max_timeout: Seconds,
    pub rate: u32,
}
#[derive(Copy, Clone, Debug)]
pub struct IoConfig {
    pub frame_read_rate: Option<FrameReadRate>,
    pub keepalive: Seconds,
}
impl IoConfig {
    pub fn frame_read_rate(&self) -> Option<&FrameReadRate> {
        self.frame_read_rate.as_ref()
    }
    pub fn keepalive_timeout(&self) -> Seconds {
        self.keepalive
    }
}
/// `ntex_io::Decoded`
pub struct Decoded<T> {
    pub item: Option<T>,
    pub remains: usize,
    pub consumed: usize,
}
impl IoBoxed {
    pub fn cfg(&self) -> &IoConfig {
        self.0.cfg()
    }
    pub fn start_timer(&self, t: Seconds) {
        self.0.start_timer(t)
    }
    pub fn stop_timer(&self) {}
}
