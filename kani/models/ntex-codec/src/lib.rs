//! The two trait definitions of ntex-codec 1.2.1, verbatim signatures, over the model ntex-bytes.
use ntex_bytes::{BytePages, BytesMut};
use std::fmt;
pub trait Encoder {
    type Item;
    type Error: fmt::Debug;
    fn encode(&self, _: Self::Item, _: &mut BytesMut) -> Result<(), Self::Error> {
        panic!("Encoder::encodev() must be implemented")
    }
    fn encodev(&self, item: Self::Item, dst: &mut BytePages) -> Result<(), Self::Error> {
        dst.with_bytes_mut(|buf| self.encode(item, buf))
    }
}
pub trait Decoder {
    type Item: fmt::Debug;
    type Error: fmt::Debug;
    fn decode(&self, src: &mut BytesMut) -> Result<Option<Self::Item>, Self::Error>;
}
