//! Model of the three ntex-util items the woven slice needs.
pub mod future {
    pub use crate::future_ready::Ready;
    pub use crate::future_select::select;
    use std::{future::Future, pin::Pin, task::{Context, Poll}};
    #[derive(Debug, Clone, Copy, PartialEq, Eq)]
    pub enum Either<A, B> {
        Left(A),
        Right(B),
    }
    impl<A> Either<A, A> {
        pub fn into_inner(self) -> A {
            match self {
                Either::Left(a) | Either::Right(a) => a,
            }
        }
    }
    impl<A, B> Either<A, B> {
        pub fn is_left(&self) -> bool {
            matches!(self, Either::Left(_))
        }
        pub fn is_right(&self) -> bool {
            matches!(self, Either::Right(_))
        }
    }
    impl<A: Future, B: Future<Output = A::Output>> Future for Either<A, B> {
        type Output = A::Output;
        fn poll(self: Pin<&mut Self>, cx: &mut Context<'_>) -> Poll<Self::Output> {
            unsafe {
                match self.get_unchecked_mut() {
                    Either::Left(a) => Pin::new_unchecked(a).poll(cx),
                    Either::Right(b) => Pin::new_unchecked(b).poll(cx),
                }
            }
        }
    }
    /// sequential stand-in for `join` (only the type is needed: the service wrapper in inflight.rs
    /// is compiled but never executed by a harness)
    pub async fn join<A: Future, B: Future>(a: A, b: B) -> (A::Output, B::Output) {
        let x = a.await;
        let y = b.await;
        (x, y)
    }
}
/// the REAL ntex_util::task::LocalWaker source (std-only file), copied verbatim from the cargo
/// registry by weave.py - not a model.
#[path = "../../../weave/ntex_util_task.rs"]
pub mod task;

// ---------------------------------------------------------------------------------------------
// Models for the connection-state slice (v*/shared.rs, v*/sink.rs, io.rs DispatcherState).
pub mod future_ready {
    use std::{future::Future, pin::Pin, task::{Context, Poll}};
    /// `ntex_util::future::Ready`: a future that is immediately ready (Ok / Err / Done forms)
    #[derive(Debug)]
    pub enum Ready<T, E> {
        Ok(T),
        Err(E),
        Done(Option<Result<T, E>>),
    }
    impl<T, E> Unpin for Ready<T, E> {}
    impl<T, E> Future for Ready<T, E> {
        type Output = Result<T, E>;
        fn poll(self: Pin<&mut Self>, _cx: &mut Context<'_>) -> Poll<Self::Output> {
            let this = self.get_mut();
            let r = std::mem::replace(this, Ready::Done(None));
            match r {
                Ready::Ok(t) => Poll::Ready(Ok(t)),
                Ready::Err(e) => Poll::Ready(Err(e)),
                Ready::Done(Some(r)) => Poll::Ready(r),
                Ready::Done(None) => panic!("Ready polled after completion"),
            }
        }
    }
}

/// fixed-capacity value model of `ntex_util::HashSet` (std HashSet with a fast hasher): membership
/// only; exceeding the capacity is an assertion failure (bounds are chosen so that it cannot
/// happen on the unchanged tree)
pub const MSET_CAP: usize = 4;
#[derive(Debug, Clone)]
pub struct HashSet<T> {
    slots: [Option<T>; MSET_CAP],
}
impl<T: Copy + PartialEq> Default for HashSet<T> {
    fn default() -> Self {
        HashSet { slots: [None; MSET_CAP] }
    }
}
impl<T: Copy + PartialEq> HashSet<T> {
    pub fn contains(&self, v: &T) -> bool {
        let mut i = 0;
        while i < MSET_CAP {
            if self.slots[i] == Some(*v) {
                return true;
            }
            i += 1;
        }
        false
    }
    pub fn insert(&mut self, v: T) -> bool {
        if self.contains(&v) {
            return false;
        }
        let mut i = 0;
        while i < MSET_CAP {
            if self.slots[i].is_none() {
                self.slots[i] = Some(v);
                return true;
            }
            i += 1;
        }
        panic!("MODEL CAPACITY: HashSet model holds at most MSET_CAP elements");
    }
    pub fn remove(&mut self, v: &T) -> bool {
        let mut i = 0;
        while i < MSET_CAP {
            if self.slots[i] == Some(*v) {
                self.slots[i] = None;
                return true;
            }
            i += 1;
        }
        false
    }
    pub fn len(&self) -> usize {
        let mut n = 0;
        let mut i = 0;
        while i < MSET_CAP {
            if self.slots[i].is_some() {
                n += 1;
            }
            i += 1;
        }
        n
    }
    pub fn is_empty(&self) -> bool {
        self.len() == 0
    }
    pub fn clear(&mut self) {
        self.slots = [None; MSET_CAP];
    }
}

/// fixed-capacity value model of `ntex_util::HashMap` (get / insert / remove / entry-free subset)
#[derive(Debug, Clone)]
pub struct HashMap<K, V> {
    slots: [Option<(K, V)>; MSET_CAP],
}
impl<K: Copy + PartialEq, V> Default for HashMap<K, V> {
    fn default() -> Self {
        HashMap { slots: [const { None }; MSET_CAP] }
    }
}
impl<K: Copy + PartialEq, V> HashMap<K, V> {
    fn find(&self, k: &K) -> Option<usize> {
        let mut i = 0;
        while i < MSET_CAP {
            if let Some((kk, _)) = &self.slots[i] {
                if *kk == *k {
                    return Some(i);
                }
            }
            i += 1;
        }
        None
    }
    pub fn get(&self, k: &K) -> Option<&V> {
        match self.find(k) {
            Some(i) => self.slots[i].as_ref().map(|kv| &kv.1),
            None => None,
        }
    }
    pub fn contains_key(&self, k: &K) -> bool {
        self.find(k).is_some()
    }
    pub fn insert(&mut self, k: K, v: V) -> Option<V> {
        if let Some(i) = self.find(&k) {
            let old = self.slots[i].take();
            self.slots[i] = Some((k, v));
            return old.map(|kv| kv.1);
        }
        let mut i = 0;
        while i < MSET_CAP {
            if self.slots[i].is_none() {
                self.slots[i] = Some((k, v));
                return None;
            }
            i += 1;
        }
        panic!("MODEL CAPACITY: HashMap model holds at most MSET_CAP entries");
    }
    pub fn remove(&mut self, k: &K) -> Option<V> {
        match self.find(k) {
            Some(i) => self.slots[i].take().map(|kv| kv.1),
            None => None,
        }
    }
    pub fn len(&self) -> usize {
        let mut n = 0;
        let mut i = 0;
        while i < MSET_CAP {
            if self.slots[i].is_some() {
                n += 1;
            }
            i += 1;
        }
        n
    }
    pub fn entry(&mut self, k: K) -> hash_map::Entry<'_, K, V> {
        match self.find(&k) {
            Some(i) => hash_map::Entry::Occupied(hash_map::OccupiedEntry { map: self, idx: i }),
            None => hash_map::Entry::Vacant(hash_map::VacantEntry { map: self, key: k }),
        }
    }
}
pub mod hash_map {
    use super::HashMap;
    pub enum Entry<'a, K, V> {
        Occupied(OccupiedEntry<'a, K, V>),
        Vacant(VacantEntry<'a, K, V>),
    }
    pub struct OccupiedEntry<'a, K, V> {
        pub(super) map: &'a mut HashMap<K, V>,
        pub(super) idx: usize,
    }
    pub struct VacantEntry<'a, K, V> {
        pub(super) map: &'a mut HashMap<K, V>,
        pub(super) key: K,
    }
    impl<'a, K: Copy + PartialEq, V> Entry<'a, K, V> {
        pub fn or_insert_with<F: FnOnce() -> V>(self, f: F) -> &'a mut V {
            match self {
                Entry::Occupied(e) => e.into_mut(),
                Entry::Vacant(e) => e.insert(f()),
            }
        }
        pub fn or_insert(self, v: V) -> &'a mut V {
            self.or_insert_with(|| v)
        }
        pub fn and_modify<F: FnOnce(&mut V)>(mut self, f: F) -> Self {
            if let Entry::Occupied(e) = &mut self {
                f(e.get_mut());
            }
            self
        }
    }
    impl<'a, K: Copy + PartialEq, V> OccupiedEntry<'a, K, V> {
        pub fn into_mut(self) -> &'a mut V {
            &mut self.map.slots[self.idx].as_mut().unwrap().1
        }
        pub fn remove(self) -> V {
            self.map.slots[self.idx].take().unwrap().1
        }
        pub fn get(&self) -> &V {
            &self.map.slots[self.idx].as_ref().unwrap().1
        }
        pub fn get_mut(&mut self) -> &mut V {
            &mut self.map.slots[self.idx].as_mut().unwrap().1
        }
        pub fn insert(&mut self, v: V) -> V {
            std::mem::replace(&mut self.map.slots[self.idx].as_mut().unwrap().1, v)
        }
    }
    impl<'a, K: Copy + PartialEq, V> VacantEntry<'a, K, V> {
        pub fn insert(self, v: V) -> &'a mut V {
            let k = self.key;
            self.map.insert(k, v);
            let i = self.map.find(&k).unwrap();
            &mut self.map.slots[i].as_mut().unwrap().1
        }
    }
}

pub mod channel {
    pub mod condition {
        pub use crate::channel_condition::{Condition, Waiter};
    }
    /// Error returned from a `Receiver` when the corresponding `Sender` is dropped.
    #[derive(Debug, Copy, Clone, PartialEq, Eq)]
    pub struct Canceled;

    /// model of `ntex_util::channel::pool`: one-shot channels with the semantics of ntex-util 3.6
    /// (`send` fails iff the receiver is gone; the receiver yields the value if one was sent, else
    /// `Canceled` once the sender is gone, else Pending and registers the waker; dropping either
    /// side wakes the other). Slots are leaked allocations instead of a slab.
    pub mod pool {
        use super::Canceled;
        use std::{cell::Cell, future::Future, marker::PhantomData, pin::Pin, task::{Context, Poll}};

        pub struct Pool<T>(PhantomData<T>);
        pub fn new<T>() -> Pool<T> {
            Pool(PhantomData)
        }
        impl<T> Default for Pool<T> {
            fn default() -> Self {
                new()
            }
        }
        impl<T> Clone for Pool<T> {
            fn clone(&self) -> Self {
                Pool(PhantomData)
            }
        }
        impl<T> std::fmt::Debug for Pool<T> {
            fn fmt(&self, f: &mut std::fmt::Formatter<'_>) -> std::fmt::Result {
                f.write_str("Pool")
            }
        }
        struct Inner<T> {
            value: Cell<Option<T>>,
            sender: Cell<bool>,
            receiver: Cell<bool>,
        }
        impl<T> Pool<T> {
            pub fn channel(&self) -> (Sender<T>, Receiver<T>) {
                let p: *const Inner<T> = Box::into_raw(Box::new(Inner {
                    value: Cell::new(None),
                    sender: Cell::new(true),
                    receiver: Cell::new(true),
                }));
                (Sender { inner: p }, Receiver { inner: p })
            }
            pub fn shrink_to_fit(&self) {}
        }
        pub struct Sender<T> {
            inner: *const Inner<T>,
        }
        pub struct Receiver<T> {
            inner: *const Inner<T>,
        }
        impl<T> Unpin for Receiver<T> {}
        impl<T> Unpin for Sender<T> {}
        impl<T> std::fmt::Debug for Sender<T> {
            fn fmt(&self, f: &mut std::fmt::Formatter<'_>) -> std::fmt::Result {
                f.write_str("Sender")
            }
        }
        impl<T> std::fmt::Debug for Receiver<T> {
            fn fmt(&self, f: &mut std::fmt::Formatter<'_>) -> std::fmt::Result {
                f.write_str("Receiver")
            }
        }
        impl<T> Sender<T> {
            pub fn send(self, val: T) -> Result<(), T> {
                let inner = unsafe { &*self.inner };
                if inner.receiver.get() {
                    inner.value.set(Some(val));
                    Ok(())
                } else {
                    Err(val)
                }
            }
            pub fn is_canceled(&self) -> bool {
                !unsafe { &*self.inner }.receiver.get()
            }
            pub fn poll_canceled(&self, _cx: &mut Context<'_>) -> Poll<()> {
                let inner = unsafe { &*self.inner };
                if inner.receiver.get() {
                    Poll::Pending
                } else {
                    Poll::Ready(())
                }
            }
        }
        impl<T> Drop for Sender<T> {
            fn drop(&mut self) {
                let inner = unsafe { &*self.inner };
                if inner.receiver.get() {
                }
                inner.sender.set(false);
            }
        }
        impl<T> Receiver<T> {
            pub fn poll_recv(&self, _cx: &mut Context<'_>) -> Poll<Result<T, Canceled>> {
                let inner = unsafe { &*self.inner };
                if let Some(val) = inner.value.take() {
                    return Poll::Ready(Ok(val));
                }
                if inner.sender.get() {
                    Poll::Pending
                } else {
                    Poll::Ready(Err(Canceled))
                }
            }
        }
        impl<T> Drop for Receiver<T> {
            fn drop(&mut self) {
                let inner = unsafe { &*self.inner };
                inner.receiver.set(false);
            }
        }
        impl<T> Future for Receiver<T> {
            type Output = Result<T, Canceled>;
            fn poll(self: Pin<&mut Self>, cx: &mut Context<'_>) -> Poll<Self::Output> {
                self.poll_recv(cx)
            }
        }
    }

    /// minimal model of `ntex_util::channel::bstream` (payload stream): a two-slot queue of chunks,
    /// eof / error marker, and the readiness status the dispatchers consult
    pub mod bstream {
        use ntex_bytes::Bytes;
        use std::{cell::Cell, cell::RefCell};
        #[derive(Debug, Copy, Clone, PartialEq, Eq)]
        pub enum Status {
            Eof,
            Ready,
            Dropped,
        }
        pub struct Shared<E> {
            pub chunks: RefCell<[Option<Bytes>; 4]>,
            pub n: Cell<usize>,
            pub eof: Cell<bool>,
            pub err: Cell<Option<E>>,
            pub rx_alive: Cell<bool>,
            pub fed_bytes: Cell<usize>,
        }
        pub struct Sender<E> {
            inner: *const Shared<E>,
        }
        pub struct Receiver<E> {
            inner: *const Shared<E>,
        }
        impl<E> Clone for Sender<E> {
            fn clone(&self) -> Self {
                Sender { inner: self.inner }
            }
        }
        impl<E> std::fmt::Debug for Sender<E> {
            fn fmt(&self, f: &mut std::fmt::Formatter<'_>) -> std::fmt::Result {
                f.write_str("bstream::Sender")
            }
        }
        impl<E> std::fmt::Debug for Receiver<E> {
            fn fmt(&self, f: &mut std::fmt::Formatter<'_>) -> std::fmt::Result {
                f.write_str("bstream::Receiver")
            }
        }
        pub fn channel<E>() -> (Sender<E>, Receiver<E>) {
            let p: *const Shared<E> = Box::into_raw(Box::new(Shared {
                chunks: RefCell::new([const { None }; 4]),
                n: Cell::new(0),
                eof: Cell::new(false),
                err: Cell::new(None),
                rx_alive: Cell::new(true),
                fed_bytes: Cell::new(0),
            }));
            (Sender { inner: p }, Receiver { inner: p })
        }
        impl<E> Sender<E> {
            pub fn shared(&self) -> &Shared<E> {
                unsafe { &*self.inner }
            }
            pub fn set_error(&self, err: E) {
                self.shared().err.set(Some(err));
            }
            pub fn feed_eof(&self) {
                self.shared().eof.set(true);
            }
            pub fn feed_data(&self, data: Bytes) {
                let s = self.shared();
                let n = s.n.get();
                assert!(n < 4, "MODEL CAPACITY: bstream model holds at most 4 chunks");
                s.fed_bytes.set(s.fed_bytes.get() + data.len());
                s.chunks.borrow_mut()[n] = Some(data);
                s.n.set(n + 1);
            }
            pub async fn ready(&self) -> Status {
                let s = self.shared();
                if !s.rx_alive.get() {
                    Status::Dropped
                } else if s.eof.get() {
                    Status::Eof
                } else {
                    Status::Ready
                }
            }
        }
        impl<E> Receiver<E> {
            pub fn shared(&self) -> &Shared<E> {
                unsafe { &*self.inner }
            }
            pub fn max_buffer_size(&self, _size: usize) {}
            /// the sender has marked the end of the stream (chunks may still be queued)
            pub fn is_eof(&self) -> bool {
                self.shared().eof.get()
            }
            pub async fn read(&self) -> Option<Result<Bytes, E>> {
                let s = self.shared();
                if let Some(e) = s.err.take() {
                    return Some(Err(e));
                }
                let n = s.n.get();
                if n > 0 {
                    let mut c = s.chunks.borrow_mut();
                    let first = c[0].take();
                    let mut i = 1;
                    while i < 4 {
                        c[i - 1] = c[i].take();
                        i += 1;
                    }
                    s.n.set(n - 1);
                    return first.map(Ok);
                }
                None
            }
        }
        impl<E> Drop for Receiver<E> {
            fn drop(&mut self) {
                self.shared().rx_alive.set(false);
            }
        }
    }
}

// ---------------------------------------------------------------------------------------------
// Models for the extracted `call_service` of io.rs: select, spawn, Condition.
pub mod future_select {
    use crate::future::Either;
    use std::{future::Future, pin::Pin, task::{Context, Poll}};
    /// `ntex_util::future::select`: polls `a`, then `b`; the first ready one wins
    pub struct Select<A, B> {
        a: A,
        b: B,
    }
    pub fn select<A: Future, B: Future>(a: A, b: B) -> Select<A, B> {
        Select { a, b }
    }
    impl<A: Future, B: Future> Future for Select<A, B> {
        type Output = Either<A::Output, B::Output>;
        fn poll(self: Pin<&mut Self>, cx: &mut Context<'_>) -> Poll<Self::Output> {
            let this = unsafe { self.get_unchecked_mut() };
            if let Poll::Ready(x) = unsafe { Pin::new_unchecked(&mut this.a) }.poll(cx) {
                return Poll::Ready(Either::Left(x));
            }
            if let Poll::Ready(x) = unsafe { Pin::new_unchecked(&mut this.b) }.poll(cx) {
                return Poll::Ready(Either::Right(x));
            }
            Poll::Pending
        }
    }
}

/// `ntex_util::spawn`: the task is parked in a table; `model_run_spawned()` polls every parked task
/// once, in spawn order (a harness decides when the executor runs)
pub const TASK_CAP: usize = 2;
/// A parked task is a leaked future plus a monomorphic poll thunk. No `dyn Future`: CBMC resolves an
/// indirect call to EVERY function whose low-level signature matches, and `Future::poll` of a
/// `dyn Future<Output = ()>` has the signature of every `fmt::Debug::fmt` in the program (measured:
/// the whole formatting machinery was expanded at each poll). The thunk has a deliberately odd
/// signature so that it is the only candidate; tasks are never dropped.
#[derive(Copy, Clone)]
struct Task {
    data: *mut (),
    poll: fn(*mut (), u128, i16) -> u64,
}
fn poll_thunk<F: std::future::Future<Output = ()>>(p: *mut (), _a: u128, _b: i16) -> u64 {
    let f = unsafe { &mut *(p as *mut F) };
    let mut cx = std::task::Context::from_waker(std::task::Waker::noop());
    if unsafe { std::pin::Pin::new_unchecked(f) }.poll(&mut cx).is_pending() { 1 } else { 0 }
}
static mut TASKS: [Option<Task>; TASK_CAP] = [None; TASK_CAP];
pub fn spawn<F>(f: F)
where
    F: std::future::Future<Output = ()> + 'static,
{
    let mut i = 0;
    while i < TASK_CAP {
        let free = unsafe { (*std::ptr::addr_of!(TASKS))[i].is_none() };
        if free {
            let data = Box::into_raw(Box::new(f)) as *mut ();
            unsafe {
                (*std::ptr::addr_of_mut!(TASKS))[i] = Some(Task { data, poll: poll_thunk::<F> });
            }
            return;
        }
        i += 1;
    }
    panic!("MODEL CAPACITY: at most TASK_CAP spawned tasks");
}
/// polls every parked task once, in spawn order; returns the number still pending afterwards
pub fn model_run_spawned() -> usize {
    let mut left = 0;
    let mut i = 0;
    while i < TASK_CAP {
        let t = unsafe { (*std::ptr::addr_of!(TASKS))[i] };
        if let Some(t) = t {
            if (t.poll)(t.data, 0, 0) == 1 {
                left += 1;
            } else {
                unsafe {
                    (*std::ptr::addr_of_mut!(TASKS))[i] = None;
                }
            }
        }
        i += 1;
    }
    left
}
pub mod channel_condition {
    use std::{cell::Cell, future::Future, pin::Pin, rc::Rc, task::{Context, Poll}};
    /// `ntex_util::channel::condition::Condition` (unit payload): `wait()` futures complete after `notify()`
    #[derive(Clone)]
    pub struct Condition(Rc<Cell<bool>>);
    pub struct Waiter(Rc<Cell<bool>>);
    impl Condition {
        pub fn new() -> Self {
            Condition(Rc::new(Cell::new(false)))
        }
        pub fn wait(&self) -> Waiter {
            Waiter(self.0.clone())
        }
        pub fn notify(&self) {
            self.0.set(true)
        }
        pub fn notify_and_lock_readiness(&self) {
            self.0.set(true)
        }
    }
    impl Future for Waiter {
        type Output = ();
        fn poll(self: Pin<&mut Self>, _cx: &mut Context<'_>) -> Poll<()> {
            if self.0.get() { Poll::Ready(()) } else { Poll::Pending }
        }
    }
}

pub mod time {
    /// `ntex_util::time::Seconds`
    #[derive(Clone, Copy, Debug, PartialEq, Eq, PartialOrd, Ord, Hash)]
    pub struct Seconds(pub u16);
    impl Seconds {
        pub const ZERO: Seconds = Seconds(0);
        pub const ONE: Seconds = Seconds(1);
        pub const fn new(secs: u16) -> Seconds {
            Seconds(secs)
        }
        pub const fn is_zero(self) -> bool {
            self.0 == 0
        }
        pub const fn non_zero(self) -> bool {
            self.0 != 0
        }
        pub const fn seconds(self) -> u64 {
            self.0 as u64
        }
    }
}
