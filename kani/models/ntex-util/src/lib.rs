//! Model of the three ntex-util items the woven slice needs.
pub mod future {
    use std::{future::Future, pin::Pin, task::{Context, Poll}};
    #[derive(Debug, Clone, Copy, PartialEq, Eq)]
    pub enum Either<A, B> {
        Left(A),
        Right(B),
    }
    impl<A> Either<A, A> {
        pub fn into_inner(self) -> A {
            match self {
                Either::Left(a) | Either::Right(a) => a,
            }
        }
    }
    impl<A, B> Either<A, B> {
        pub fn is_left(&self) -> bool {
            matches!(self, Either::Left(_))
        }
        pub fn is_right(&self) -> bool {
            matches!(self, Either::Right(_))
        }
    }
    impl<A: Future, B: Future<Output = A::Output>> Future for Either<A, B> {
        type Output = A::Output;
        fn poll(self: Pin<&mut Self>, cx: &mut Context<'_>) -> Poll<Self::Output> {
            unsafe {
                match self.get_unchecked_mut() {
                    Either::Left(a) => Pin::new_unchecked(a).poll(cx),
                    Either::Right(b) => Pin::new_unchecked(b).poll(cx),
                }
            }
        }
    }
    /// sequential stand-in for `join` (only the type is needed: the service wrapper in inflight.rs
    /// is compiled but never executed by a harness)
    pub async fn join<A: Future, B: Future>(a: A, b: B) -> (A::Output, B::Output) {
        let x = a.await;
        let y = b.await;
        (x, y)
    }
}
/// the REAL ntex_util::task::LocalWaker source (std-only file), copied verbatim from the cargo
/// registry by weave.py - not a model.
#[path = "../../../weave/ntex_util_task.rs"]
pub mod task;
