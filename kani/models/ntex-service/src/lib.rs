//! `Service`/`ServiceCtx`/`Pipeline` with the call/ready protocol of ntex-service 4.6 (ready, then call), without the waiter bookkeeping. Used by the C12 service-level harnesses (ct_gate_*).
use std::{marker::PhantomData, task::Context};
#[allow(async_fn_in_trait)]
pub trait Service<Req> {
    type Response;
    type Error;
    async fn call(&self, req: Req, ctx: ServiceCtx<'_, Self>) -> Result<Self::Response, Self::Error>;
    async fn ready(&self, _ctx: ServiceCtx<'_, Self>) -> Result<(), Self::Error> {
        Ok(())
    }
    async fn shutdown(&self) {}
    fn poll(&self, _cx: &mut Context<'_>) -> Result<(), Self::Error> {
        Ok(())
    }
}
pub struct ServiceCtx<'a, S: ?Sized>(PhantomData<&'a S>);
impl<'a, S: ?Sized> ServiceCtx<'a, S> {
    pub fn new() -> Self {
        ServiceCtx(PhantomData)
    }
    pub async fn ready<T, R>(&self, svc: &'a T) -> Result<(), T::Error>
    where
        T: Service<R>,
    {
        svc.ready(ServiceCtx(PhantomData)).await
    }
    /// as in ntex-service 4.6: wait for readiness, then call
    pub async fn call<T, R>(&self, svc: &'a T, req: R) -> Result<T::Response, T::Error>
    where
        T: Service<R>,
        R: 'a,
    {
        self.ready(svc).await?;
        svc.call(req, ServiceCtx(PhantomData)).await
    }
}

/// the two entry points of ntex_service::Pipeline that the C12 service-level harnesses use
/// (same names and signatures as ntex-service 4.6; no waiter bookkeeping: one caller at a time)
pub struct Pipeline<S> {
    svc: S,
}
impl<S> Pipeline<S> {
    pub fn new(svc: S) -> Self {
        Pipeline { svc }
    }
    pub fn get_ref(&self) -> &S {
        &self.svc
    }
    pub async fn ready<R>(&self) -> Result<(), S::Error>
    where
        S: Service<R>,
    {
        ServiceCtx::<'_, S>::new().ready(&self.svc).await
    }
    pub async fn call<R>(&self, req: R) -> Result<S::Response, S::Error>
    where
        S: Service<R>,
    {
        ServiceCtx::<'_, S>::new().call(&self.svc, req).await
    }
}
#[macro_export]
macro_rules! forward_poll {
    ($field:ident) => {
        #[inline]
        fn poll(&self, cx: &mut std::task::Context<'_>) -> Result<(), Self::Error> {
            self.$field.poll(cx).map_err(From::from)
        }
    };
}
#[macro_export]
macro_rules! forward_shutdown {
    ($field:ident) => {
        #[inline]
        async fn shutdown(&self) {
            self.$field.shutdown().await
        }
    };
}
