//! `Service`/`ServiceCtx`/`Pipeline` with the call/ready protocol of ntex-service 4.6 (ready, then call), without the waiter bookkeeping. Used by the C12 service-level harnesses (ct_gate_*).
use std::{marker::PhantomData, task::Context};
#[allow(async_fn_in_trait)]
pub trait Service<Req> {
    type Response;
    type Error;
    async fn call(&self, req: Req, ctx: ServiceCtx<'_, Self>) -> Result<Self::Response, Self::Error>;
    async fn ready(&self, _ctx: ServiceCtx<'_, Self>) -> Result<(), Self::Error> {
        Ok(())
    }
    async fn shutdown(&self) {}
    fn poll(&self, _cx: &mut Context<'_>) -> Result<(), Self::Error> {
        Ok(())
    }
    /// MODEL ONLY (see PipelineCall): the state of the call for `req`
    fn model_poll(&self, _req: &Req) -> std::task::Poll<Result<Self::Response, Self::Error>> {
        panic!("model_poll not provided by this service")
    }
}
pub struct ServiceCtx<'a, S: ?Sized>(PhantomData<&'a S>);
impl<'a, S: ?Sized> ServiceCtx<'a, S> {
    pub fn new() -> Self {
        ServiceCtx(PhantomData)
    }
    pub fn ready<T, R>(&self, svc: &'a T) -> impl std::future::Future<Output = Result<(), T::Error>>
    where
        T: Service<R>,
    {
        svc.ready(ServiceCtx(PhantomData))
    }
    /// ntex-service 4.6 waits for readiness of `svc`, then calls it. The wrapped services of the
    /// harnesses are always ready, so the readiness wait is a no-op and is left out of the model
    /// (every nested coroutine layer multiplies the size of the encoding); not a `async fn` for
    /// the same reason: the callee's future is returned as is
    pub fn call<T, R>(&self, svc: &'a T, req: R) -> impl std::future::Future<Output = Result<T::Response, T::Error>>
    where
        T: Service<R>,
        R: 'a,
    {
        svc.call(req, ServiceCtx(PhantomData))
    }
}

/// the two entry points of ntex_service::Pipeline that the C12 service-level harnesses use
/// (same names and signatures as ntex-service 4.6; no waiter bookkeeping: one caller at a time)
pub struct Pipeline<S> {
    svc: S,
}
impl<S> Pipeline<S> {
    pub fn new(svc: S) -> Self {
        Pipeline { svc }
    }
    pub fn get_ref(&self) -> &S {
        &self.svc
    }
    pub fn ready<R>(&self) -> impl std::future::Future<Output = Result<(), S::Error>>
    where
        S: Service<R>,
    {
        self.svc.ready(ServiceCtx(PhantomData))
    }
    /// the caller (io.rs poll_service) polls readiness before every call; the harnesses do the same
    pub fn call<R>(&self, req: R) -> impl std::future::Future<Output = Result<S::Response, S::Error>>
    where
        S: Service<R>,
    {
        self.svc.call(req, ServiceCtx(PhantomData))
    }
}
#[macro_export]
macro_rules! forward_poll {
    ($field:ident) => {
        #[inline]
        fn poll(&self, cx: &mut std::task::Context<'_>) -> Result<(), Self::Error> {
            self.$field.poll(cx).map_err(From::from)
        }
    };
}
#[macro_export]
macro_rules! forward_shutdown {
    ($field:ident) => {
        #[inline]
        async fn shutdown(&self) {
            self.$field.shutdown().await
        }
    };
}

/// `ntex_service::PipelineBinding` / `PipelineCall` as far as io.rs uses them: `call_nowait` starts the
/// service call without a readiness check (io.rs polls readiness itself). The model does not run the
/// service's `async fn call` (an unnameable future type would have to be boxed as `dyn Future`, whose
/// drop glue and vtable calls CBMC resolves to every future type in the program): the pending call
/// is the pair (service, request) and polling it asks the service's `model_poll` - a method that
/// exists only in this model of the trait and that harness services implement next to `call`.
pub struct PipelineBinding<S, R>
where
    S: Service<R>,
{
    svc: std::rc::Rc<S>,
    _r: PhantomData<R>,
}
impl<S, R> PipelineBinding<S, R>
where
    S: Service<R> + 'static,
    R: 'static,
{
    pub fn model_new(svc: S) -> Self {
        PipelineBinding { svc: std::rc::Rc::new(svc), _r: PhantomData }
    }
    pub fn get_ref(&self) -> &S {
        &self.svc
    }
    pub fn call_nowait(&self, req: R) -> PipelineCall<S, R> {
        PipelineCall { svc: self.svc.clone(), req }
    }
}
pub struct PipelineCall<S, R>
where
    S: Service<R>,
    R: 'static,
{
    svc: std::rc::Rc<S>,
    req: R,
}
impl<S, R> Unpin for PipelineCall<S, R> where S: Service<R> {}
impl<S, R> std::future::Future for PipelineCall<S, R>
where
    S: Service<R>,
{
    type Output = Result<S::Response, S::Error>;
    fn poll(self: std::pin::Pin<&mut Self>, _cx: &mut Context<'_>) -> std::task::Poll<Self::Output> {
        self.svc.model_poll(&self.req)
    }
}
