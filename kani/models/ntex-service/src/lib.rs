//! Signatures only: `InFlightServiceImpl` in inflight.rs is compiled, never executed by a harness.
use std::{marker::PhantomData, task::Context};
#[allow(async_fn_in_trait)]
pub trait Service<Req> {
    type Response;
    type Error;
    async fn call(&self, req: Req, ctx: ServiceCtx<'_, Self>) -> Result<Self::Response, Self::Error>;
    async fn ready(&self, _ctx: ServiceCtx<'_, Self>) -> Result<(), Self::Error> {
        Ok(())
    }
    async fn shutdown(&self) {}
    fn poll(&self, _cx: &mut Context<'_>) -> Result<(), Self::Error> {
        Ok(())
    }
}
pub struct ServiceCtx<'a, S: ?Sized>(PhantomData<&'a S>);
impl<'a, S: ?Sized> ServiceCtx<'a, S> {
    pub fn new() -> Self {
        ServiceCtx(PhantomData)
    }
    pub async fn ready<T, R>(&self, svc: &'a T) -> Result<(), T::Error>
    where
        T: Service<R>,
    {
        svc.ready(ServiceCtx(PhantomData)).await
    }
    pub async fn call<T, R>(&self, svc: &'a T, req: R) -> Result<T::Response, T::Error>
    where
        T: Service<R>,
        R: 'a,
    {
        svc.call(req, ServiceCtx(PhantomData)).await
    }
}
#[macro_export]
macro_rules! forward_poll {
    ($field:ident) => {
        #[inline]
        fn poll(&self, cx: &mut std::task::Context<'_>) -> Result<(), Self::Error> {
            self.$field.poll(cx).map_err(From::from)
        }
    };
}
#[macro_export]
macro_rules! forward_shutdown {
    ($field:ident) => {
        #[inline]
        async fn shutdown(&self) {
            self.$field.shutdown().await
        }
    };
}
