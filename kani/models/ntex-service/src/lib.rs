//! `Service`/`ServiceCtx`/`Pipeline` with the call/ready protocol of ntex-service 4.6 (ready, then call), without the waiter bookkeeping. Used by the C12 service-level harnesses (ct_gate_*).
use std::{marker::PhantomData, task::Context};
#[allow(async_fn_in_trait)]
pub trait Service<Req> {
    type Response;
    type Error;
    async fn call(&self, req: Req, ctx: ServiceCtx<'_, Self>) -> Result<Self::Response, Self::Error>;
    async fn ready(&self, _ctx: ServiceCtx<'_, Self>) -> Result<(), Self::Error> {
        Ok(())
    }
    async fn shutdown(&self) {}
    fn poll(&self, _cx: &mut Context<'_>) -> Result<(), Self::Error> {
        Ok(())
    }
}
pub struct ServiceCtx<'a, S: ?Sized>(PhantomData<&'a S>);
impl<'a, S: ?Sized> ServiceCtx<'a, S> {
    pub fn new() -> Self {
        ServiceCtx(PhantomData)
    }
    pub fn ready<T, R>(&self, svc: &'a T) -> impl std::future::Future<Output = Result<(), T::Error>>
    where
        T: Service<R>,
    {
        svc.ready(ServiceCtx(PhantomData))
    }
    /// ntex-service 4.6 waits for readiness of `svc`, then calls it. The wrapped services of the
    /// harnesses are always ready, so the readiness wait is a no-op and is left out of the model
    /// (every nested coroutine layer multiplies the size of the encoding); not a `async fn` for
    /// the same reason: the callee's future is returned as is
    pub fn call<T, R>(&self, svc: &'a T, req: R) -> impl std::future::Future<Output = Result<T::Response, T::Error>>
    where
        T: Service<R>,
        R: 'a,
    {
        svc.call(req, ServiceCtx(PhantomData))
    }
}

/// the two entry points of ntex_service::Pipeline that the C12 service-level harnesses use
/// (same names and signatures as ntex-service 4.6; no waiter bookkeeping: one caller at a time)
pub struct Pipeline<S> {
    svc: S,
}
impl<S> Pipeline<S> {
    pub fn new(svc: S) -> Self {
        Pipeline { svc }
    }
    pub fn get_ref(&self) -> &S {
        &self.svc
    }
    pub fn ready<R>(&self) -> impl std::future::Future<Output = Result<(), S::Error>>
    where
        S: Service<R>,
    {
        self.svc.ready(ServiceCtx(PhantomData))
    }
    /// the caller (io.rs poll_service) polls readiness before every call; the harnesses do the same
    pub fn call<R>(&self, req: R) -> impl std::future::Future<Output = Result<S::Response, S::Error>>
    where
        S: Service<R>,
    {
        self.svc.call(req, ServiceCtx(PhantomData))
    }
}
#[macro_export]
macro_rules! forward_poll {
    ($field:ident) => {
        #[inline]
        fn poll(&self, cx: &mut std::task::Context<'_>) -> Result<(), Self::Error> {
            self.$field.poll(cx).map_err(From::from)
        }
    };
}
#[macro_export]
macro_rules! forward_shutdown {
    ($field:ident) => {
        #[inline]
        async fn shutdown(&self) {
            self.$field.shutdown().await
        }
    };
}

/// `ntex_service::PipelineCall`: only stored (as `Option<..>` in a `Cell`) by the extracted io.rs
/// state; never polled by a harness
pub struct PipelineCall<S, R>(PhantomData<(S, R)>);
