pub mod connect {
    #[derive(Debug)]
    pub struct ConnectError;
    impl std::fmt::Display for ConnectError {
        fn fmt(&self, f: &mut std::fmt::Formatter<'_>) -> std::fmt::Result {
            f.write_str("connect error")
        }
    }
    impl std::error::Error for ConnectError {}
}
