//! Verification model of the ntex-bytes API subset that ntex-mqtt's codec, topic and version
//! modules call. It replaces the real crate ONLY underneath the woven source slice that Kani
//! compiles; every reported violation is replayed on the real crate with the real ntex-bytes.
//!
//! Representation: `Bytes`/`BytesMut` are (pointer,len) views into leaked, never-freed
//! allocations (no reference counts, no inline/heap switch, no drop glue, no TLS page cache).
//! `BytePages` is one flat fixed-capacity array. Exceeding a capacity is an assertion failure
//! (reported), never a silent truncation.
//!
//! Fidelity of this model is validated three ways (see DESIGN.md section 3):
//!  * the repository's own unit tests in the included files run natively against this model,
//!  * tests/differential.rs drives this model and the real ntex-bytes with the same operations,
//!  * harness `m_utf8_equiv` proves `utf8_is_valid` == `std::str::from_utf8(..).is_ok()` (len<=4).
use std::{borrow::Borrow, fmt, hash::{Hash, Hasher}, ops::Deref};

pub trait Buf {
    fn remaining(&self) -> usize;
    fn chunk(&self) -> &[u8];
    fn advance(&mut self, cnt: usize);
    fn has_remaining(&self) -> bool {
        self.remaining() > 0
    }
    fn get_u8(&mut self) -> u8 {
        assert!(self.remaining() >= 1, "buffer underflow");
        let v = self.chunk()[0];
        self.advance(1);
        v
    }
    fn get_u16(&mut self) -> u16 {
        assert!(self.remaining() >= 2, "buffer underflow");
        let c = self.chunk();
        let v = u16::from_be_bytes([c[0], c[1]]);
        self.advance(2);
        v
    }
    fn get_u32(&mut self) -> u32 {
        assert!(self.remaining() >= 4, "buffer underflow");
        let c = self.chunk();
        let v = u32::from_be_bytes([c[0], c[1], c[2], c[3]]);
        self.advance(4);
        v
    }
}

impl Buf for std::io::Cursor<&[u8]> {
    fn remaining(&self) -> usize {
        let len = self.get_ref().len();
        let pos = self.position();
        if pos >= len as u64 { 0 } else { len - pos as usize }
    }
    fn chunk(&self) -> &[u8] {
        let pos = self.position() as usize;
        &self.get_ref()[pos..]
    }
    fn advance(&mut self, cnt: usize) {
        let pos = (self.position() as usize).checked_add(cnt).expect("overflow");
        assert!(pos <= self.get_ref().len());
        self.set_position(pos as u64);
    }
}

pub trait BufMut {
    fn put_slice(&mut self, src: &[u8]);
    fn put_u8(&mut self, n: u8) {
        self.put_slice(&[n])
    }
    fn put_u16(&mut self, n: u16) {
        self.put_slice(&n.to_be_bytes())
    }
    fn put_u32(&mut self, n: u32) {
        self.put_slice(&n.to_be_bytes())
    }
}

fn leak(b: &[u8]) -> (*const u8, usize) {
    if b.is_empty() {
        return (std::ptr::NonNull::<u8>::dangling().as_ptr(), 0);
    }
    let v: &'static mut [u8] = Box::leak(b.to_vec().into_boxed_slice());
    (v.as_ptr(), v.len())
}

// ---------------------------------------------------------------------------------------------
#[derive(Clone, Copy)]
pub struct Bytes {
    ptr: *const u8,
    len: usize,
}

impl Bytes {
    pub const fn new() -> Bytes {
        Bytes { ptr: std::ptr::NonNull::<u8>::dangling().as_ptr(), len: 0 }
    }
    pub const fn from_static(b: &'static [u8]) -> Bytes {
        Bytes { ptr: b.as_ptr(), len: b.len() }
    }
    pub fn copy_from_slice(b: &[u8]) -> Bytes {
        let (ptr, len) = leak(b);
        Bytes { ptr, len }
    }
    #[inline]
    pub fn len(&self) -> usize {
        self.len
    }
    #[inline]
    pub fn is_empty(&self) -> bool {
        self.len == 0
    }
    pub fn split_to(&mut self, at: usize) -> Bytes {
        assert!(at <= self.len, "split_to out of bounds");
        let r = Bytes { ptr: self.ptr, len: at };
        self.ptr = self.ptr.wrapping_add(at);
        self.len -= at;
        r
    }
    pub fn split_off(&mut self, at: usize) -> Bytes {
        assert!(at <= self.len, "split_off out of bounds");
        let r = Bytes { ptr: self.ptr.wrapping_add(at), len: self.len - at };
        self.len = at;
        r
    }
    pub fn slice(&self, r: std::ops::Range<usize>) -> Bytes {
        assert!(r.start <= r.end && r.end <= self.len);
        Bytes { ptr: self.ptr.wrapping_add(r.start), len: r.end - r.start }
    }
    /// sub-view identified by a sub-slice of `self` (pointer arithmetic inside one allocation)
    pub fn slice_ref(&self, subset: &[u8]) -> Bytes {
        if subset.is_empty() {
            return Bytes::new();
        }
        let base = self.ptr as usize;
        let sub = subset.as_ptr() as usize;
        assert!(sub >= base && sub + subset.len() <= base + self.len, "slice_ref: not a sub-slice");
        Bytes { ptr: self.ptr.wrapping_add(sub - base), len: subset.len() }
    }
    pub fn truncate(&mut self, len: usize) {
        if len < self.len {
            self.len = len;
        }
    }
    pub fn clear(&mut self) {
        self.len = 0;
    }
    pub fn trimdown(&mut self) {}
    #[inline]
    fn as_slice(&self) -> &[u8] {
        if self.len == 0 { &[] } else { unsafe { std::slice::from_raw_parts(self.ptr, self.len) } }
    }
}
impl Default for Bytes {
    fn default() -> Self {
        Bytes::new()
    }
}
impl Buf for Bytes {
    fn remaining(&self) -> usize {
        self.len
    }
    fn chunk(&self) -> &[u8] {
        self.as_slice()
    }
    fn advance(&mut self, cnt: usize) {
        assert!(cnt <= self.len, "cannot advance past `remaining`");
        self.ptr = self.ptr.wrapping_add(cnt);
        self.len -= cnt;
    }
}
impl Deref for Bytes {
    type Target = [u8];
    fn deref(&self) -> &[u8] {
        self.as_slice()
    }
}
impl AsRef<[u8]> for Bytes {
    fn as_ref(&self) -> &[u8] {
        self.as_slice()
    }
}
impl Borrow<[u8]> for Bytes {
    fn borrow(&self) -> &[u8] {
        self.as_slice()
    }
}
impl PartialEq for Bytes {
    fn eq(&self, o: &Bytes) -> bool {
        slice_eq(self.as_slice(), o.as_slice())
    }
}
impl Eq for Bytes {}
impl PartialEq<[u8]> for Bytes {
    fn eq(&self, o: &[u8]) -> bool {
        slice_eq(self.as_slice(), o)
    }
}
impl PartialEq<&[u8]> for Bytes {
    fn eq(&self, o: &&[u8]) -> bool {
        slice_eq(self.as_slice(), o)
    }
}
impl<const N: usize> PartialEq<[u8; N]> for Bytes {
    fn eq(&self, o: &[u8; N]) -> bool {
        slice_eq(self.as_slice(), o)
    }
}
impl<const N: usize> PartialEq<&[u8; N]> for Bytes {
    fn eq(&self, o: &&[u8; N]) -> bool {
        slice_eq(self.as_slice(), *o)
    }
}
impl PartialEq<Bytes> for &[u8] {
    fn eq(&self, o: &Bytes) -> bool {
        slice_eq(self, o.as_slice())
    }
}
impl PartialEq<Vec<u8>> for Bytes {
    fn eq(&self, o: &Vec<u8>) -> bool {
        slice_eq(self.as_slice(), o)
    }
}
impl PartialEq<str> for Bytes {
    fn eq(&self, o: &str) -> bool {
        slice_eq(self.as_slice(), o.as_bytes())
    }
}
impl PartialEq<&str> for Bytes {
    fn eq(&self, o: &&str) -> bool {
        slice_eq(self.as_slice(), o.as_bytes())
    }
}
impl Hash for Bytes {
    fn hash<H: Hasher>(&self, h: &mut H) {
        self.as_slice().hash(h)
    }
}
impl fmt::Debug for Bytes {
    fn fmt(&self, f: &mut fmt::Formatter<'_>) -> fmt::Result {
        fmt::Debug::fmt(self.as_slice(), f)
    }
}
impl From<&'static [u8]> for Bytes {
    fn from(b: &'static [u8]) -> Self {
        Bytes::from_static(b)
    }
}
impl<const N: usize> From<&'static [u8; N]> for Bytes {
    fn from(b: &'static [u8; N]) -> Self {
        Bytes::from_static(b)
    }
}
impl From<&'static str> for Bytes {
    fn from(b: &'static str) -> Self {
        Bytes::from_static(b.as_bytes())
    }
}
impl From<Vec<u8>> for Bytes {
    fn from(b: Vec<u8>) -> Self {
        Bytes::copy_from_slice(&b)
    }
}
impl From<String> for Bytes {
    fn from(b: String) -> Self {
        Bytes::copy_from_slice(b.as_bytes())
    }
}
impl From<BytesMut> for Bytes {
    fn from(b: BytesMut) -> Self {
        b.freeze()
    }
}

/// byte-wise comparison with an explicit loop (bounded by the harness unwind); avoids memcmp
/// intrinsics whose cost under CBMC depends on object sizes rather than on `len`.
#[inline]
pub fn slice_eq(a: &[u8], b: &[u8]) -> bool {
    if a.len() != b.len() {
        return false;
    }
    let mut i = 0;
    while i < a.len() {
        if a[i] != b[i] {
            return false;
        }
        i += 1;
    }
    true
}

// ---------------------------------------------------------------------------------------------
#[derive(Clone, Copy)]
pub struct BytesMut {
    ptr: *const u8,
    len: usize,
}
impl BytesMut {
    pub fn new() -> Self {
        BytesMut { ptr: std::ptr::NonNull::<u8>::dangling().as_ptr(), len: 0 }
    }
    pub fn with_capacity(_n: usize) -> Self {
        Self::new()
    }
    pub fn copy_from_slice(b: &[u8]) -> Self {
        let (ptr, len) = leak(b);
        BytesMut { ptr, len }
    }
    pub fn len(&self) -> usize {
        self.len
    }
    pub fn is_empty(&self) -> bool {
        self.len == 0
    }
    pub fn reserve(&mut self, _n: usize) {}
    pub fn extend_from_slice(&mut self, s: &[u8]) {
        if s.is_empty() {
            return;
        }
        let mut v = Vec::with_capacity(self.len + s.len());
        v.extend_from_slice(self.as_slice());
        v.extend_from_slice(s);
        let l: &'static mut [u8] = Box::leak(v.into_boxed_slice());
        self.ptr = l.as_ptr();
        self.len = l.len();
    }
    pub fn split_to(&mut self, at: usize) -> Bytes {
        assert!(at <= self.len, "split_to out of bounds");
        let r = Bytes { ptr: self.ptr, len: at };
        self.ptr = self.ptr.wrapping_add(at);
        self.len -= at;
        r
    }
    pub fn freeze(self) -> Bytes {
        Bytes { ptr: self.ptr, len: self.len }
    }
    pub fn clear(&mut self) {
        self.len = 0;
    }
    #[inline]
    fn as_slice(&self) -> &[u8] {
        if self.len == 0 { &[] } else { unsafe { std::slice::from_raw_parts(self.ptr, self.len) } }
    }
}
impl Default for BytesMut {
    fn default() -> Self {
        Self::new()
    }
}
impl Buf for BytesMut {
    fn remaining(&self) -> usize {
        self.len
    }
    fn chunk(&self) -> &[u8] {
        self.as_slice()
    }
    fn advance(&mut self, cnt: usize) {
        assert!(cnt <= self.len, "cannot advance past `remaining`");
        self.ptr = self.ptr.wrapping_add(cnt);
        self.len -= cnt;
    }
}
impl BufMut for BytesMut {
    fn put_slice(&mut self, s: &[u8]) {
        self.extend_from_slice(s)
    }
}
impl Deref for BytesMut {
    type Target = [u8];
    fn deref(&self) -> &[u8] {
        self.as_slice()
    }
}
impl AsRef<[u8]> for BytesMut {
    fn as_ref(&self) -> &[u8] {
        self.as_slice()
    }
}
impl From<&[u8]> for BytesMut {
    fn from(b: &[u8]) -> Self {
        BytesMut::copy_from_slice(b)
    }
}
impl<const N: usize> From<&[u8; N]> for BytesMut {
    fn from(b: &[u8; N]) -> Self {
        BytesMut::copy_from_slice(b)
    }
}
impl From<Bytes> for BytesMut {
    fn from(b: Bytes) -> Self {
        BytesMut { ptr: b.ptr, len: b.len }
    }
}
impl From<BytePage> for BytesMut {
    fn from(b: BytePage) -> Self {
        BytesMut::from(b.0)
    }
}
impl From<BytePage> for Bytes {
    fn from(b: BytePage) -> Self {
        b.0
    }
}
impl PartialEq for BytesMut {
    fn eq(&self, o: &BytesMut) -> bool {
        slice_eq(self.as_slice(), o.as_slice())
    }
}
impl fmt::Debug for BytesMut {
    fn fmt(&self, f: &mut fmt::Formatter<'_>) -> fmt::Result {
        fmt::Debug::fmt(self.as_slice(), f)
    }
}

// ---------------------------------------------------------------------------------------------
/// capacity of the encoder output model under Kani; exceeding it is a reported assertion failure.
/// (Natively - model validation tests - the storage is a growable Vec so that the repository's
/// own unit tests, incl. the 260 KiB publish, run against the same model code paths.)
pub const OCAP: usize = 64;

pub struct BytePages {
    #[cfg(kani)]
    data: [u8; OCAP],
    #[cfg(not(kani))]
    data: Vec<u8>,
    len: usize,
}
pub struct BytePage(Bytes);
impl BytePage {
    pub fn freeze(self) -> Bytes {
        self.0
    }
    pub fn len(&self) -> usize {
        self.0.len()
    }
}
impl Default for BytePages {
    #[cfg(kani)]
    fn default() -> Self {
        BytePages { data: [0; OCAP], len: 0 }
    }
    #[cfg(not(kani))]
    fn default() -> Self {
        BytePages { data: Vec::new(), len: 0 }
    }
}
impl fmt::Debug for BytePages {
    fn fmt(&self, f: &mut fmt::Formatter<'_>) -> fmt::Result {
        fmt::Debug::fmt(self.as_slice(), f)
    }
}
impl BytePages {
    pub fn len(&self) -> usize {
        self.len
    }
    pub fn is_empty(&self) -> bool {
        self.len == 0
    }
    pub fn append<T: AsRef<[u8]>>(&mut self, b: T) {
        self.extend_from_slice(b.as_ref())
    }
    #[cfg(kani)]
    pub fn extend_from_slice(&mut self, s: &[u8]) {
        assert!(self.len + s.len() <= OCAP, "model capacity (OCAP) exceeded");
        let mut i = 0;
        while i < s.len() {
            self.data[self.len + i] = s[i];
            i += 1;
        }
        self.len += s.len();
    }
    #[cfg(not(kani))]
    pub fn extend_from_slice(&mut self, s: &[u8]) {
        self.data.truncate(self.len);
        self.data.extend_from_slice(s);
        self.len += s.len();
    }
    pub fn clear(&mut self) {
        self.len = 0;
    }
    /// model-only accessor (the real type has no contiguous view)
    pub fn as_slice(&self) -> &[u8] {
        &self.data[..self.len]
    }
    #[cfg(kani)]
    pub fn freeze(&mut self) -> Bytes {
        // a view into ONE fixed-size leaked copy (a symbolic-size allocation would go to CBMC's
        // array theory)
        let l: &'static [u8; OCAP] = Box::leak(Box::new(self.data));
        let b = Bytes::from_static(&l[..self.len]);
        self.len = 0;
        b
    }
    #[cfg(not(kani))]
    pub fn freeze(&mut self) -> Bytes {
        let b = Bytes::copy_from_slice(&self.data[..self.len]);
        self.len = 0;
        b
    }
    pub fn take(&mut self) -> Option<BytePage> {
        if self.len == 0 { None } else { Some(BytePage(self.freeze())) }
    }
    pub fn with_bytes_mut<R>(&mut self, _f: impl FnOnce(&mut BytesMut) -> R) -> R {
        unimplemented!("not used by ntex-mqtt (encodev is always implemented)")
    }
}
impl BufMut for BytePages {
    fn put_slice(&mut self, s: &[u8]) {
        self.extend_from_slice(s)
    }
}

// ---------------------------------------------------------------------------------------------
#[derive(Clone, Copy, PartialEq, Eq, Hash, Default)]
pub struct ByteString(Bytes);
impl ByteString {
    pub const fn new() -> Self {
        ByteString(Bytes::new())
    }
    pub const fn from_static(s: &'static str) -> Self {
        ByteString(Bytes::from_static(s.as_bytes()))
    }
    pub fn as_bytes(&self) -> &Bytes {
        &self.0
    }
    pub fn as_slice(&self) -> &[u8] {
        self.0.as_slice()
    }
    pub fn as_str(&self) -> &str {
        unsafe { std::str::from_utf8_unchecked(self.0.as_slice()) }
    }
    pub fn into_bytes(self) -> Bytes {
        self.0
    }
    pub unsafe fn from_bytes_unchecked(b: Bytes) -> Self {
        ByteString(b)
    }
    pub fn trimdown(&mut self) {}
    pub fn split_at(&self, mid: usize) -> (ByteString, ByteString) {
        let _ = self.as_str().split_at(mid);
        let mut b = self.0;
        let a = b.split_to(mid);
        (ByteString(a), ByteString(b))
    }
}
impl Deref for ByteString {
    type Target = str;
    fn deref(&self) -> &str {
        self.as_str()
    }
}
impl AsRef<str> for ByteString {
    fn as_ref(&self) -> &str {
        self.as_str()
    }
}
impl AsRef<[u8]> for ByteString {
    fn as_ref(&self) -> &[u8] {
        self.0.as_slice()
    }
}
impl Borrow<str> for ByteString {
    fn borrow(&self) -> &str {
        self.as_str()
    }
}
impl PartialEq<str> for ByteString {
    fn eq(&self, o: &str) -> bool {
        slice_eq(self.0.as_slice(), o.as_bytes())
    }
}
impl PartialEq<&str> for ByteString {
    fn eq(&self, o: &&str) -> bool {
        slice_eq(self.0.as_slice(), o.as_bytes())
    }
}
impl PartialEq<ByteString> for str {
    fn eq(&self, o: &ByteString) -> bool {
        slice_eq(self.as_bytes(), o.0.as_slice())
    }
}
impl PartialEq<ByteString> for &str {
    fn eq(&self, o: &ByteString) -> bool {
        slice_eq(self.as_bytes(), o.0.as_slice())
    }
}
impl PartialEq<String> for ByteString {
    fn eq(&self, o: &String) -> bool {
        slice_eq(self.0.as_slice(), o.as_bytes())
    }
}
impl PartialOrd for ByteString {
    fn partial_cmp(&self, o: &Self) -> Option<std::cmp::Ordering> {
        Some(self.cmp(o))
    }
}
impl Ord for ByteString {
    fn cmp(&self, o: &Self) -> std::cmp::Ordering {
        self.0.as_slice().cmp(o.0.as_slice())
    }
}
impl From<&str> for ByteString {
    fn from(s: &str) -> Self {
        ByteString(Bytes::copy_from_slice(s.as_bytes()))
    }
}
impl From<String> for ByteString {
    fn from(s: String) -> Self {
        ByteString(Bytes::copy_from_slice(s.as_bytes()))
    }
}
impl From<&String> for ByteString {
    fn from(s: &String) -> Self {
        ByteString(Bytes::copy_from_slice(s.as_bytes()))
    }
}
impl TryFrom<Bytes> for ByteString {
    type Error = ();
    fn try_from(b: Bytes) -> Result<Self, ()> {
        if utf8_is_valid(b.as_slice()) { Ok(ByteString(b)) } else { Err(()) }
    }
}
impl TryFrom<&[u8]> for ByteString {
    type Error = ();
    fn try_from(b: &[u8]) -> Result<Self, ()> {
        if utf8_is_valid(b) { Ok(ByteString(Bytes::copy_from_slice(b))) } else { Err(()) }
    }
}
impl fmt::Debug for ByteString {
    fn fmt(&self, f: &mut fmt::Formatter<'_>) -> fmt::Result {
        fmt::Debug::fmt(self.as_str(), f)
    }
}
impl fmt::Display for ByteString {
    fn fmt(&self, f: &mut fmt::Formatter<'_>) -> fmt::Result {
        fmt::Display::fmt(self.as_str(), f)
    }
}
impl serde::Serialize for ByteString {
    fn serialize<S: serde::Serializer>(&self, s: S) -> Result<S::Ok, S::Error> {
        s.serialize_str(self.as_str())
    }
}
impl<'de> serde::Deserialize<'de> for ByteString {
    fn deserialize<D: serde::Deserializer<'de>>(d: D) -> Result<Self, D::Error> {
        <String as serde::Deserialize>::deserialize(d).map(ByteString::from)
    }
}

/// Byte-wise UTF-8 well-formedness check (Unicode Table 3-7). Equivalent to
/// `std::str::from_utf8(b).is_ok()`; std's implementation uses `align_offset` and word-at-a-time
/// scanning, which CBMC cannot digest, hence this model. Equivalence: harness `m_utf8_equiv`
/// plus the native exhaustive/differential test in tests/differential.rs.
pub fn utf8_is_valid(b: &[u8]) -> bool {
    // one byte per iteration, single back-edge: `need` continuation bytes outstanding, the next
    // one restricted to lo..=hi (second byte of a sequence), later ones to 0x80..=0xBF.
    let n = b.len();
    let mut need: u8 = 0;
    let mut lo: u8 = 0x80;
    let mut hi: u8 = 0xBF;
    let mut i = 0;
    while i < n {
        let c = b[i];
        if need == 0 {
            if c >= 0x80 {
                if c >= 0xC2 && c <= 0xDF {
                    need = 1;
                    lo = 0x80;
                    hi = 0xBF;
                } else if c == 0xE0 {
                    need = 2;
                    lo = 0xA0;
                    hi = 0xBF;
                } else if (c >= 0xE1 && c <= 0xEC) || c == 0xEE || c == 0xEF {
                    need = 2;
                    lo = 0x80;
                    hi = 0xBF;
                } else if c == 0xED {
                    need = 2;
                    lo = 0x80;
                    hi = 0x9F;
                } else if c == 0xF0 {
                    need = 3;
                    lo = 0x90;
                    hi = 0xBF;
                } else if c >= 0xF1 && c <= 0xF3 {
                    need = 3;
                    lo = 0x80;
                    hi = 0xBF;
                } else if c == 0xF4 {
                    need = 3;
                    lo = 0x80;
                    hi = 0x8F;
                } else {
                    return false;
                }
            }
        } else {
            if c < lo || c > hi {
                return false;
            }
            need -= 1;
            lo = 0x80;
            hi = 0xBF;
        }
        i += 1;
    }
    need == 0
}
