//! Kani compilation unit. Every `#[path]` below points into /verif/build/weave/src, a scratch
//! copy of /repo/src made by lib/weave.py on every run (add-only: harness `mod` lines appended).
#![allow(dead_code, unused_imports, unused_macros, unused_variables, unexpected_cfgs)]
#![allow(clippy::all)]
#![recursion_limit = "1024"]

#[cfg(kani)]
#[macro_use]
#[path = "../../weave/harness/support/vk_kani.rs"]
pub(crate) mod vk;
#[cfg(not(kani))]
#[macro_use]
#[path = "../../weave/harness/support/vk_replay.rs"]
pub(crate) mod vk;

#[cfg(kani)]
#[path = "../../weave/harness/support/vh.rs"]
pub(crate) mod vh;
#[cfg(kani)]
#[path = "../../weave/harness/support/mvec.rs"]
pub(crate) mod mvec;
#[cfg(kani)]
#[path = "../../weave/harness/support/mvec8.rs"]
pub(crate) mod mvec8;
#[cfg(kani)]
#[path = "../../weave/harness/support/mdeque.rs"]
pub(crate) mod mdeque;
#[cfg(kani)]
#[path = "../../weave/harness/support/vio_kani.rs"]
pub(crate) mod vio;

// under Kani `vec!` builds whichever `Vec` is in scope at the call site (the model Vec in the woven
// files); textual macro scope takes precedence over the prelude macro
#[cfg(kani)]
macro_rules! vec {
    () => { Vec::new() };
    ($($x:expr),+ $(,)?) => {{ let mut v = Vec::new(); $(v.push($x);)+ v }};
}

#[path = "../../weave/src/topic.rs"]
mod topic;
#[macro_use]
#[path = "../../weave/src/utils.rs"]
mod utils;
#[path = "../../weave/src/error.rs"]
pub mod error;
#[path = "../../weave/src/types.rs"]
mod types;
#[path = "../../weave/src/version.rs"]
mod version;
// (its #[cfg(test)] module needs the ntex runtime: the file is left out of native model tests)
#[cfg(not(test))]
#[path = "../../weave/src/inflight.rs"]
mod inflight;

#[cfg(not(test))]
pub use self::inflight::SizedRequest;
pub use self::topic::{TopicFilter, TopicFilterError, TopicFilterLevel};
pub use self::types::QoS;

// connection-state slice (Kani only: these files have no unit tests of their own that run without
// the ntex runtime)
#[cfg(kani)]
#[path = "../../weave/src/payload.rs"]
mod payload;
// how the in-flight limiter classifies inbound items (both server dispatchers)
#[cfg(kani)]
include!("../../weave/gen_sized.rs");
// io.rs: the response re-sequencing state, extracted item by item (see lib/weave.py gen_io_state)
#[cfg(kani)]
mod io_state {
    include!("../../weave/gen_io_state.rs");
}

pub mod v3 {
    #[path = "../../../weave/src/v3/codec/mod.rs"]
    pub mod codec;
    #[cfg(kani)]
    #[path = "../../../weave/src/v3/shared.rs"]
    pub(crate) mod shared;
    #[cfg(kani)]
    #[path = "../../../weave/src/v3/sink.rs"]
    pub(crate) mod sink;
    #[cfg(kani)]
    #[path = "../../../weave/src/v3/handshake.rs"]
    pub(crate) mod handshake;
    #[cfg(kani)]
    pub use crate::error;
}
pub mod v5 {
    // the one item of the real v5/mod.rs that the codec refers to; extracted verbatim by weave
    include!("../../weave/gen_v5_consts.rs");
    #[path = "../../../weave/src/v5/codec/mod.rs"]
    pub mod codec;
    #[cfg(kani)]
    #[path = "../../../weave/src/v5/shared.rs"]
    pub(crate) mod shared;
    #[cfg(kani)]
    #[path = "../../../weave/src/v5/sink.rs"]
    pub(crate) mod sink;
    #[cfg(kani)]
    #[path = "../../../weave/src/v5/handshake.rs"]
    pub(crate) mod handshake;
    // the synchronous admission block of the v5 dispatcher's PUBLISH arm (see lib/weave.py gen_v5_pubgate)
    #[cfg(kani)]
    pub(crate) mod pubgate {
        include!("../../weave/gen_v5_pubgate.rs");
    }
    #[cfg(kani)]
    pub(crate) mod client_pubgate {
        include!("../../weave/gen_v5_client_pubgate.rs");
    }
}
