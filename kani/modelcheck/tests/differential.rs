//! Differential validation of the ntex-bytes verification model against the REAL ntex-bytes, and of
//! the two UTF-8 validators (model automaton, harness oracle) against std. Run by lib/setup.py.
use model as m;
use real as r;
use m::{Buf as _, BufMut as _};
use r::{Buf as _, BufMut as _};

#[path = "../../harness/support/utf8_oracle.rs"]
mod oracle;

struct Lcg(u64);
impl Lcg {
    fn next(&mut self) -> u32 {
        self.0 = self.0.wrapping_mul(6364136223846793005).wrapping_add(1442695040888963407);
        (self.0 >> 33) as u32
    }
    fn below(&mut self, n: usize) -> usize {
        if n == 0 { 0 } else { self.next() as usize % n }
    }
}

#[test]
fn utf8_validators_agree_with_std_exhaustive_3_bytes() {
    let mut n = 0u64;
    for len in 0..=3usize {
        let total = 256u64.pow(len as u32);
        for x in 0..total {
            let b = [(x & 0xff) as u8, ((x >> 8) & 0xff) as u8, ((x >> 16) & 0xff) as u8];
            let s = &b[..len];
            let want = std::str::from_utf8(s).is_ok();
            assert_eq!(m::utf8_is_valid(s), want, "model {:x?}", s);
            assert_eq!(oracle::spec_utf8(s), want, "oracle {:x?}", s);
            n += 1;
        }
    }
    assert!(n > 16_000_000);
}

#[test]
fn utf8_validators_agree_with_std_structured_4_to_8_bytes() {
    // every (lead byte class) x (second byte) x (third) x (fourth byte sample) for 4-byte forms, then random tails
    let mut g = Lcg(1);
    let interesting: [u8; 24] = [0x00, 0x41, 0x7f, 0x80, 0x8f, 0x90, 0x9f, 0xa0, 0xbf, 0xc0, 0xc1, 0xc2, 0xdf, 0xe0, 0xe1, 0xec, 0xed, 0xee, 0xef, 0xf0, 0xf1, 0xf4, 0xf5, 0xff];
    for &a in &interesting {
        for &b in &interesting {
            for &c in &interesting {
                for &d in &interesting {
                    for extra in 0..3usize {
                        let mut v = vec![a, b, c, d];
                        for _ in 0..extra * 2 {
                            v.push(interesting[g.below(interesting.len())]);
                        }
                        let want = std::str::from_utf8(&v).is_ok();
                        assert_eq!(m::utf8_is_valid(&v), want, "model {:x?}", v);
                        assert_eq!(oracle::spec_utf8(&v), want, "oracle {:x?}", v);
                    }
                }
            }
        }
    }
    for _ in 0..2_000_000 {
        let len = 4 + g.below(5);
        let v: Vec<u8> = (0..len).map(|_| if g.below(3) == 0 { interesting[g.below(interesting.len())] } else { g.next() as u8 }).collect();
        let want = std::str::from_utf8(&v).is_ok();
        assert_eq!(m::utf8_is_valid(&v), want, "model {:x?}", v);
        assert_eq!(oracle::spec_utf8(&v), want, "oracle {:x?}", v);
    }
}

#[test]
fn bytes_operations_agree() {
    let mut g = Lcg(42);
    for _case in 0..20_000 {
        let len = g.below(40);
        let data: Vec<u8> = (0..len).map(|_| g.next() as u8).collect();
        let mut mb = m::Bytes::copy_from_slice(&data);
        let mut rb = r::Bytes::copy_from_slice(&data);
        for _ in 0..8 {
            assert_eq!(mb.len(), rb.len());
            assert_eq!(&mb[..], &rb[..]);
            assert_eq!(mb.is_empty(), rb.is_empty());
            assert_eq!(mb.has_remaining(), rb.has_remaining());
            match g.below(7) {
                0 => {
                    let at = g.below(mb.len() + 1);
                    let (a, b) = (mb.split_to(at), rb.split_to(at));
                    assert_eq!(&a[..], &b[..]);
                }
                1 => {
                    let n = g.below(mb.len() + 1);
                    mb.advance(n);
                    rb.advance(n);
                }
                2 if mb.len() >= 1 => assert_eq!(mb.get_u8(), rb.get_u8()),
                3 if mb.len() >= 2 => assert_eq!(mb.get_u16(), rb.get_u16()),
                4 if mb.len() >= 4 => assert_eq!(mb.get_u32(), rb.get_u32()),
                5 => {
                    let (a, b) = (mb.clone(), rb.clone());
                    assert_eq!(a == mb, b == rb);
                    let ms = m::ByteString::try_from(a).is_ok();
                    let rs = r::ByteString::try_from(b).is_ok();
                    assert_eq!(ms, rs);
                }
                _ => {
                    if mb.len() >= 2 {
                        let lo = g.below(mb.len());
                        let hi = lo + g.below(mb.len() - lo);
                        let ms = m::ByteString::try_from(mb.clone());
                        if let Ok(ms) = ms {
                            // slice_ref through the string view (what topic.rs::recover_bstr does)
                            if ms.is_char_boundary(lo) && ms.is_char_boundary(hi) {
                                let rs = r::ByteString::try_from(rb.clone()).unwrap();
                                let msub = ms.as_bytes().slice_ref(ms[lo..hi].as_bytes());
                                let rsub = rs.as_bytes().slice_ref(rs[lo..hi].as_bytes());
                                assert_eq!(&msub[..], &rsub[..]);
                            }
                        }
                    }
                }
            }
        }
    }
}

#[test]
fn bytesmut_and_pages_agree() {
    let mut g = Lcg(7);
    for _case in 0..20_000 {
        let mut mm = m::BytesMut::new();
        let mut rm = r::BytesMut::new();
        let mut mp = m::BytePages::default();
        let mut rp = r::BytePages::default();
        for _ in 0..10 {
            let n = g.below(12);
            let chunk: Vec<u8> = (0..n).map(|_| g.next() as u8).collect();
            match g.below(8) {
                0 => {
                    mm.extend_from_slice(&chunk);
                    rm.extend_from_slice(&chunk);
                }
                1 => {
                    let at = g.below(mm.len() + 1);
                    let (a, b) = (mm.split_to(at), rm.split_to(at));
                    assert_eq!(&a[..], &b[..]);
                }
                2 => {
                    let k = g.below(mm.len() + 1);
                    mm.advance(k);
                    rm.advance(k);
                }
                3 => {
                    mm.reserve(n);
                    rm.reserve(n);
                }
                4 => {
                    mp.extend_from_slice(&chunk);
                    rp.extend_from_slice(&chunk);
                }
                5 => {
                    let v = g.next();
                    mp.put_u8(v as u8);
                    rp.put_u8(v as u8);
                    mp.put_u16(v as u16);
                    rp.put_u16(v as u16);
                    mp.put_u32(v);
                    rp.put_u32(v);
                }
                6 => {
                    mp.append(m::Bytes::copy_from_slice(&chunk));
                    rp.append(r::Bytes::copy_from_slice(&chunk));
                }
                _ => {
                    mp.put_slice(&chunk);
                    rp.put_slice(&chunk);
                }
            }
            assert_eq!(mm.len(), rm.len());
            assert_eq!(&mm[..], &rm[..]);
            assert_eq!(mp.len(), rp.len());
        }
        let (a, b) = (mp.freeze(), rp.freeze());
        assert_eq!(&a[..], &b[..]);
        assert_eq!(mp.len(), 0);
        assert_eq!(rp.len(), 0);
        let (a, b) = (m::BytesMut::from(a), r::BytesMut::from(b));
        assert_eq!(&a[..], &b[..]);
    }
}
