//! see tests/differential.rs
