//! Harnesses mounted inside `v5::shared` (connection-state slice): ONE operation of `MqttShared`
//! from an ARBITRARY valid queue state (inductive step), real shared.rs over the container /
//! channel / io models of DESIGN.md section 3.
use super::*;
use crate::{vio, vk};
#[cfg(kani)]
use crate::mvec::Vec;
use std::task::Poll;

fn nz(v: u16) -> num::NonZeroU16 {
    vk::assume(v != 0);
    num::NonZeroU16::new(v).unwrap()
}
fn any_acktype() -> AckType {
    let k = vk::any_u8();
    vk::assume(k < 5);
    match k {
        0 => AckType::Publish,
        1 => AckType::Receive,
        2 => AckType::Complete,
        3 => AckType::Subscribe,
        _ => AckType::Unsubscribe,
    }
}
fn mk_ack(kind: AckType, id: num::NonZeroU16) -> Ack {
    match kind {
        AckType::Publish => Ack::Publish(codec::PublishAck { packet_id: id, ..Default::default() }),
        AckType::Receive => Ack::Receive(codec::PublishAck { packet_id: id, ..Default::default() }),
        AckType::Complete => Ack::Complete(codec::PublishAck2 { packet_id: id, ..Default::default() }),
        AckType::Subscribe => Ack::Subscribe(codec::SubscribeAck {
            packet_id: id,
            properties: Default::default(),
            reason_string: None,
            status: Vec::new(),
        }),
        AckType::Unsubscribe => Ack::Unsubscribe(codec::UnsubscribeAck {
            packet_id: id,
            properties: Default::default(),
            reason_string: None,
            status: Vec::new(),
        }),
    }
}
fn ack_kind(a: &Ack) -> AckType {
    match a {
        Ack::Publish(_) => AckType::Publish,
        Ack::Receive(_) => AckType::Receive,
        Ack::Complete(_) => AckType::Complete,
        Ack::Subscribe(_) => AckType::Subscribe,
        Ack::Unsubscribe(_) => AckType::Unsubscribe,
    }
}
fn new_shared(io: &vio::IoH) -> Rc<MqttShared> {
    Rc::new(MqttShared::new(io.ioref(), codec::Codec::new(), Rc::new(MqttSinkPool::default())))
}

/// what the harness keeps about one outstanding send of the pre-state
struct Out {
    id: num::NonZeroU16,
    tp: AckType,
    rx: Option<pool::Receiver<Ack>>,
}
const NOUT: usize = 3;

/// an arbitrary valid pre-state: n (a literal per harness instance: queue positions and channel
/// objects stay concrete for the symbolic execution) outstanding sends with pairwise distinct non-zero ids (the
/// representation invariant wait_*response maintains), each waiting for an arbitrary ack type
fn arb_outstanding(sh: &MqttShared, n: usize) -> ([Option<Out>; NOUT], usize) {
    let mut outs: [Option<Out>; NOUT] = [const { None }; NOUT];
    let mut i = 0;
    while i < n {
        let id = nz(vk::any_u16());
        let tp = any_acktype();
        let mut j = 0;
        while j < i {
            vk::assume(outs[j].as_ref().unwrap().id != id);
            j += 1;
        }
        let (tx, rx) = sh.pool.queue.channel();
        {
            let mut q = sh.queues.borrow_mut();
            q.inflight.push_back((id, Some(tx), tp));
            q.inflight_ids.insert(id);
        }
        outs[i] = Some(Out { id, tp, rx: Some(rx) });
        i += 1;
    }
    (outs, n)
}
/// Some(Ok(kind, id)) = completed successfully with that ack, Some(Err) = failed (disconnected), None = still waiting
fn peek(rx: &pool::Receiver<Ack>) -> Option<Result<(AckType, num::NonZeroU16), ()>> {
    let mut cx = vio::noop_cx();
    match rx.poll_recv(&mut cx) {
        Poll::Pending => None,
        Poll::Ready(Ok(a)) => Some(Ok((ack_kind(&a), a.packet_id()))),
        Poll::Ready(Err(_)) => Some(Err(())),
    }
}

fn ack_step(nq: usize) {
        vio::with_io(move |io| {
            let sh = new_shared(io);
            sh.cap.set(vk::any_usize());
            let (outs, n) = arb_outstanding(&sh, nq);
            let kind = any_acktype();
            let id = nz(vk::any_u16());
            let res = sh.pkt_ack(mk_ack(kind, id));
            let answers_oldest = n > 0 && {
                let o = outs[0].as_ref().unwrap();
                o.id == id && o.tp == kind
            };
            if res.is_ok() {
                assert!(answers_oldest, "an acknowledgement that does not answer the oldest outstanding send was accepted");
            }
            let mut i = 0;
            while i < n {
                let o = outs[i].as_ref().unwrap();
                match peek(o.rx.as_ref().unwrap()) {
                    Some(Ok((k, pid))) => {
                        assert!(i == 0, "a send other than the oldest completed");
                        assert!(k == o.tp && pid == o.id, "a send completed with an acknowledgement of the wrong type or id");
                        assert!(res.is_ok());
                    }
                    Some(Err(())) => {
                        assert!(res.is_err(), "a pending send was cancelled although the acknowledgement was accepted");
                    }
                    None => {
                        assert!(res.is_ok(), "connection failed but a send is left waiting forever");
                        assert!(i > 0, "the answered send did not complete");
                    }
                }
                i += 1;
            }
            if answers_oldest {
                assert!(res.is_ok(), "the correct acknowledgement of the oldest send was refused");
                let q = sh.queues.borrow();
                if kind == AckType::Receive {
                    // QoS 2: the exchange continues, the id stays in use, now expecting PUBCOMP
                    assert!(q.inflight.len() == n);
                    assert!(q.inflight_ids.contains(&id));
                    let last = q.inflight.get(n - 1).unwrap();
                    assert!(last.0 == id && last.2 == AckType::Complete);
                } else {
                    assert!(q.inflight.len() == n - 1);
                    assert!(!q.inflight_ids.contains(&id), "identifier not released after its exchange finished");
                }
                assert!(!io.shutdown_requested());
            } else {
                assert!(res.is_err());
                assert!(io.shutdown_requested(), "protocol error but the connection is not closed");
            }
            
            vcover!(res.is_ok() == (n > 0), "accepted iff something is outstanding (witness)");
            vcover!(res.is_err(), "refused");
            std::mem::forget(outs);
            std::mem::forget(sh);
        })
    }

vharness! {
    //@ props: C06
    //@ tier: quick
    //@ functions: v5::shared::MqttShared::{pkt_ack, pkt_ack_inner, close, clear_queues}, Ack::{packet_id, is_match, packet_type}, pool channel (model), VecDeque/HashSet (models), IoRef (model)
    //@ bounds: ONE acknowledgement (any of the 5 kinds, any non-zero id) against an arbitrary outstanding queue of exactly 0 sends (ids: u16 full width, pairwise distinct; each expecting any ack type); no parked waiters
    //@ assumes: representation invariant of the queue (distinct ids, id set == ids of the queue); every outstanding send has a reply channel (awaiting APIs)
    //@ mem: 16  timeout: 900
    //@ desc: ack routing step: a send completes successfully only with the ack of the type it expects carrying its id, and only the OLDEST send can complete; any other ack completes nothing, never panics, and ends the connection (close requested, every pending send resolves disconnected)
    fn sh5_ack_step_n0() unwind(5) {
        ack_step(0)
    }
}
vharness! {
    //@ props: C06
    //@ tier: quick
    //@ functions: v5::shared::MqttShared::{pkt_ack, pkt_ack_inner, close, clear_queues}, Ack::{packet_id, is_match, packet_type}, pool channel (model), VecDeque/HashSet (models), IoRef (model)
    //@ bounds: ONE acknowledgement (any of the 5 kinds, any non-zero id) against an arbitrary outstanding queue of exactly 1 sends (ids: u16 full width, pairwise distinct; each expecting any ack type); no parked waiters
    //@ assumes: representation invariant of the queue (distinct ids, id set == ids of the queue); every outstanding send has a reply channel (awaiting APIs)
    //@ mem: 16  timeout: 900
    //@ desc: ack routing step: a send completes successfully only with the ack of the type it expects carrying its id, and only the OLDEST send can complete; any other ack completes nothing, never panics, and ends the connection (close requested, every pending send resolves disconnected)
    fn sh5_ack_step_n1() unwind(5) {
        ack_step(1)
    }
}
vharness! {
    //@ props: C06
    //@ tier: quick
    //@ functions: v5::shared::MqttShared::{pkt_ack, pkt_ack_inner, close, clear_queues}, Ack::{packet_id, is_match, packet_type}, pool channel (model), VecDeque/HashSet (models), IoRef (model)
    //@ bounds: ONE acknowledgement (any of the 5 kinds, any non-zero id) against an arbitrary outstanding queue of exactly 2 sends (ids: u16 full width, pairwise distinct; each expecting any ack type); no parked waiters
    //@ assumes: representation invariant of the queue (distinct ids, id set == ids of the queue); every outstanding send has a reply channel (awaiting APIs)
    //@ mem: 16  timeout: 900
    //@ desc: ack routing step: a send completes successfully only with the ack of the type it expects carrying its id, and only the OLDEST send can complete; any other ack completes nothing, never panics, and ends the connection (close requested, every pending send resolves disconnected)
    fn sh5_ack_step_n2() unwind(5) {
        ack_step(2)
    }
}
vharness! {
    //@ props: C06
    //@ tier: quick
    //@ functions: v5::shared::MqttShared::{pkt_ack, pkt_ack_inner, close, clear_queues}, Ack::{packet_id, is_match, packet_type}, pool channel (model), VecDeque/HashSet (models), IoRef (model)
    //@ bounds: ONE acknowledgement (any of the 5 kinds, any non-zero id) against an arbitrary outstanding queue of exactly 3 sends (ids: u16 full width, pairwise distinct; each expecting any ack type); no parked waiters
    //@ assumes: representation invariant of the queue (distinct ids, id set == ids of the queue); every outstanding send has a reply channel (awaiting APIs)
    //@ mem: 16  timeout: 900
    //@ desc: ack routing step: a send completes successfully only with the ack of the type it expects carrying its id, and only the OLDEST send can complete; any other ack completes nothing, never panics, and ends the connection (close requested, every pending send resolves disconnected)
    fn sh5_ack_step_n3() unwind(5) {
        ack_step(3)
    }
}
