//! Harness mounted inside `v3::handshake` (C19/C20: negotiated keep-alive).
use super::*;
use crate::{vio, vk};

vharness! {
    //@ props: C19 C20
    //@ tier: quick
    //@ functions: v3::handshake::Handshake::{new, ack}, HandshakeAck::idle_timeout
    //@ bounds: CONNECT keep-alive: every u16 value
    //@ assumes: none
    //@ desc: the keep-alive period the server enforces is 1.5 times the client's value (rounded down, saturating at u16::MAX seconds), the library default when the client sends 0, and exactly the application's value when it overrides it
    fn hs3_keepalive() unwind(3) {
        vio::with_io(move |io| {
            let ka = vk::any_u16();
            let mut pkt = mqtt::Connect::default();
            pkt.keep_alive = ka;
            let shared = Rc::new(MqttShared::new(io.ioref(), mqtt::Codec::new(), false, Rc::new(Default::default())));
            let hs = Handshake::new(Box::new(pkt), 0, io.take_boxed(), shared);
            let ack = hs.ack((), false);
            let want: u32 = if ka == 0 { 30 } else { let x = ka as u32 + ka as u32 / 2; if x > 65535 { 65535 } else { x } };
            assert!(ack.keepalive.0 as u32 == want, "enforced keep-alive is not 1.5 x the client's value");
            if ka != 0 {
                assert!(ack.keepalive.0 >= ka, "server times a live client out earlier than the client's own keep-alive");
            }
            let over = vk::any_u16();
            let ack = ack.idle_timeout(Seconds(over));
            assert!(ack.keepalive.0 == over);
            std::mem::forget(ack);
        })
    }
}
