//! Harnesses mounted inside `v3::shared` (MQTT 3.1.1 twin of h_v5_shared.rs) (connection-state slice): ONE operation of `MqttShared`
//! from an ARBITRARY valid queue state (inductive step), real shared.rs over the container /
//! channel / io models of DESIGN.md section 3.
use super::*;
use crate::{vio, vk};
#[cfg(kani)]
use crate::mvec::Vec;
use std::task::Poll;
use crate::types::QoS;

/// Abstraction of the v3 encoder for harnesses whose subject is the connection state, not the byte
/// layout (that is C01/C09): every successfully encoded item becomes a 4-byte summary
/// `[first byte per MQTT 3.1.1 section 2.2, 2, packet id hi, lo]`; never fails.
#[cfg(kani)]
pub(crate) fn stub_encodev3(_c: &codec::Codec, item: Encoded, dst: &mut BytePages) -> Result<(), EncodeError> {
    let (first, id): (u8, u16) = match &item {
        Encoded::Packet(p) => match p {
            codec::Packet::PublishAck { packet_id } => (0x40, packet_id.get()),
            codec::Packet::PublishReceived { packet_id } => (0x50, packet_id.get()),
            codec::Packet::PublishRelease { packet_id } => (0x62, packet_id.get()),
            codec::Packet::PublishComplete { packet_id } => (0x70, packet_id.get()),
            codec::Packet::Subscribe { packet_id, .. } => (0x82, packet_id.get()),
            codec::Packet::SubscribeAck { packet_id, .. } => (0x90, packet_id.get()),
            codec::Packet::Unsubscribe { packet_id, .. } => (0xA2, packet_id.get()),
            codec::Packet::UnsubscribeAck { packet_id } => (0xB0, packet_id.get()),
            codec::Packet::PingRequest => (0xC0, 0),
            codec::Packet::PingResponse => (0xD0, 0),
            codec::Packet::Disconnect => (0xE0, 0),
            codec::Packet::Connect(_) => (0x10, 0),
            codec::Packet::ConnectAck(_) => (0x20, 0),
        },
        Encoded::Publish(p, _) => (
            0x30 | ((p.dup as u8) << 3) | (u8::from(p.qos) << 1) | (p.retain as u8),
            p.packet_id.map_or(0, |x| x.get()),
        ),
        Encoded::PayloadChunk(_) => (0x00, 0),
    };
    dst.extend_from_slice(&[first, 2, (id >> 8) as u8, id as u8]);
    std::mem::forget(item);
    Ok(())
}
#[cfg(kani)]
pub(crate) fn stub_packet_encode(_p: &codec::Packet, _buf: &mut BytePages) -> Result<(), EncodeError> {
    panic!("unreachable")
}

/// harness-side twin of `AckType` (which has no PartialEq in v3)
#[derive(Copy, Clone, PartialEq, Eq, Debug)]
enum K {
    Publish,
    Receive,
    Complete,
    Subscribe,
    Unsubscribe,
}
impl K {
    fn real(self) -> AckType {
        match self {
            K::Publish => AckType::Publish,
            K::Receive => AckType::Receive,
            K::Complete => AckType::Complete,
            K::Subscribe => AckType::Subscribe,
            K::Unsubscribe => AckType::Unsubscribe,
        }
    }
    fn of(t: AckType) -> K {
        match t {
            AckType::Publish => K::Publish,
            AckType::Receive => K::Receive,
            AckType::Complete => K::Complete,
            AckType::Subscribe => K::Subscribe,
            AckType::Unsubscribe => K::Unsubscribe,
        }
    }
}

fn nz(v: u16) -> num::NonZeroU16 {
    vk::assume(v != 0);
    num::NonZeroU16::new(v).unwrap()
}
fn any_acktype() -> K {
    let k = vk::any_u8();
    vk::assume(k < 5);
    match k {
        0 => K::Publish,
        1 => K::Receive,
        2 => K::Complete,
        3 => K::Subscribe,
        _ => K::Unsubscribe,
    }
}
fn mk_ack(kind: K, id: num::NonZeroU16) -> Ack {
    match kind {
        K::Publish => Ack::Publish(id),
        K::Receive => Ack::Receive(id),
        K::Complete => Ack::Complete(id),
        K::Subscribe => Ack::Subscribe { packet_id: id, status: Vec::new() },
        K::Unsubscribe => Ack::Unsubscribe(id),
    }
}
fn ack_kind(a: &Ack) -> K {
    match a {
        Ack::Publish(_) => K::Publish,
        Ack::Receive(_) => K::Receive,
        Ack::Complete(_) => K::Complete,
        Ack::Subscribe { .. } => K::Subscribe,
        Ack::Unsubscribe(_) => K::Unsubscribe,
    }
}
fn new_shared(io: &vio::IoH) -> Rc<MqttShared> {
    Rc::new(MqttShared::new(io.ioref(), codec::Codec::new(), vk::any_bool(), Rc::new(MqttSinkPool::default())))
}

/// what the harness keeps about one outstanding send of the pre-state
struct Out {
    id: num::NonZeroU16,
    tp: K,
    rx: Option<pool::Receiver<Ack>>,
}
const NOUT: usize = 3;

/// an arbitrary valid pre-state: n (a literal per harness instance: queue positions and channel
/// objects stay concrete for the symbolic execution) outstanding sends with pairwise distinct non-zero ids (the
/// representation invariant wait_*response maintains), each waiting for an arbitrary ack type
fn arb_outstanding(sh: &MqttShared, n: usize) -> ([Option<Out>; NOUT], usize) {
    let mut outs: [Option<Out>; NOUT] = [const { None }; NOUT];
    let mut i = 0;
    while i < n {
        let id = nz(vk::any_u16());
        let tp = any_acktype();
        let mut j = 0;
        while j < i {
            vk::assume(outs[j].as_ref().unwrap().id != id);
            j += 1;
        }
        let (tx, rx) = sh.pool.queue.channel();
        {
            let mut q = sh.queues.borrow_mut();
            q.inflight.push_back((id, Some(tx), tp.real()));
            q.inflight_ids.insert(id);
        }
        outs[i] = Some(Out { id, tp, rx: Some(rx) });
        i += 1;
    }
    (outs, n)
}
/// Some(Ok(kind, id)) = completed successfully with that ack, Some(Err) = failed (disconnected), None = still waiting
fn peek(rx: &pool::Receiver<Ack>) -> Option<Result<(K, num::NonZeroU16), ()>> {
    let mut cx = vio::noop_cx();
    match rx.poll_recv(&mut cx) {
        Poll::Pending => None,
        Poll::Ready(Ok(a)) => Some(Ok((ack_kind(&a), a.packet_id()))),
        Poll::Ready(Err(_)) => Some(Err(())),
    }
}

fn ack_step(nq: usize) {
        vio::with_io(move |io| {
            let sh = new_shared(io);
            sh.cap.set(vk::any_usize());
            let (outs, n) = arb_outstanding(&sh, nq);
            let kind = any_acktype();
            let id = nz(vk::any_u16());
            let res = sh.pkt_ack(mk_ack(kind, id));
            let answers_oldest = n > 0 && {
                let o = outs[0].as_ref().unwrap();
                o.id == id && o.tp == kind
            };
            if res.is_ok() {
                assert!(answers_oldest, "an acknowledgement that does not answer the oldest outstanding send was accepted");
            }
            let mut i = 0;
            while i < n {
                let o = outs[i].as_ref().unwrap();
                match peek(o.rx.as_ref().unwrap()) {
                    Some(Ok((k, pid))) => {
                        assert!(i == 0, "a send other than the oldest completed");
                        assert!(k == o.tp && pid == o.id, "a send completed with an acknowledgement of the wrong type or id");
                        assert!(res.is_ok());
                    }
                    Some(Err(())) => {
                        assert!(res.is_err(), "a pending send was cancelled although the acknowledgement was accepted");
                    }
                    None => {
                        assert!(res.is_ok(), "connection failed but a send is left waiting forever");
                        assert!(i > 0, "the answered send did not complete");
                    }
                }
                i += 1;
            }
            if answers_oldest {
                assert!(res.is_ok(), "the correct acknowledgement of the oldest send was refused");
                let q = sh.queues.borrow();
                if kind == K::Receive {
                    // QoS 2: the exchange continues, the id stays in use, now expecting PUBCOMP
                    assert!(q.inflight.len() == n);
                    assert!(q.inflight_ids.contains(&id));
                    let last = q.inflight.get(n - 1).unwrap();
                    assert!(last.0 == id && K::of(last.2) == K::Complete);
                } else {
                    assert!(q.inflight.len() == n - 1);
                    assert!(!q.inflight_ids.contains(&id), "identifier not released after its exchange finished");
                }
                assert!(!io.shutdown_requested());
            } else {
                assert!(res.is_err());
                assert!(io.shutdown_requested(), "protocol error but the connection is not closed");
            }
            
            vcover!(res.is_ok() == (n > 0), "accepted iff something is outstanding (witness)");
            vcover!(res.is_err(), "refused");
            std::mem::forget(outs);
            std::mem::forget(sh);
        })
    }

vharness! {
    //@ props: C06
    //@ env: VERIF_MVEC_CAP=1
    //@ tier: quick
    //@ functions: v3::shared::MqttShared::{pkt_ack, pkt_ack_inner, close, clear_queues}, Ack::{packet_id, is_match, packet_type}, pool channel (model), VecDeque/HashSet (models), IoRef (model)
    //@ bounds: ONE acknowledgement (any of the 5 kinds, any non-zero id) against an arbitrary outstanding queue of exactly 0 sends (ids: u16 full width, pairwise distinct; each expecting any ack type); no parked waiters
    //@ assumes: representation invariant of the queue (distinct ids, id set == ids of the queue); every outstanding send has a reply channel (awaiting APIs)
    //@ mem: 16  timeout: 900
    //@ desc: ack routing step: a send completes successfully only with the ack of the type it expects carrying its id, and only the OLDEST send can complete; any other ack completes nothing, never panics, and ends the connection (close requested, every pending send resolves disconnected)
    //@ stubs: yes
    #[kani::stub(<codec::Codec as Encoder>::encodev, stub_encodev3)]
    fn sh3_ack_step_n0() unwind(5) {
        ack_step(0)
    }
}
vharness! {
    //@ props: C06
    //@ env: VERIF_MVEC_CAP=1
    //@ tier: quick
    //@ functions: v3::shared::MqttShared::{pkt_ack, pkt_ack_inner, close, clear_queues}, Ack::{packet_id, is_match, packet_type}, pool channel (model), VecDeque/HashSet (models), IoRef (model)
    //@ bounds: ONE acknowledgement (any of the 5 kinds, any non-zero id) against an arbitrary outstanding queue of exactly 1 sends (ids: u16 full width, pairwise distinct; each expecting any ack type); no parked waiters
    //@ assumes: representation invariant of the queue (distinct ids, id set == ids of the queue); every outstanding send has a reply channel (awaiting APIs)
    //@ mem: 16  timeout: 900
    //@ desc: ack routing step: a send completes successfully only with the ack of the type it expects carrying its id, and only the OLDEST send can complete; any other ack completes nothing, never panics, and ends the connection (close requested, every pending send resolves disconnected)
    //@ stubs: yes
    #[kani::stub(<codec::Codec as Encoder>::encodev, stub_encodev3)]
    fn sh3_ack_step_n1() unwind(5) {
        ack_step(1)
    }
}
vharness! {
    //@ props: C06
    //@ env: VERIF_MVEC_CAP=1
    //@ tier: quick
    //@ functions: v3::shared::MqttShared::{pkt_ack, pkt_ack_inner, close, clear_queues}, Ack::{packet_id, is_match, packet_type}, pool channel (model), VecDeque/HashSet (models), IoRef (model)
    //@ bounds: ONE acknowledgement (any of the 5 kinds, any non-zero id) against an arbitrary outstanding queue of exactly 2 sends (ids: u16 full width, pairwise distinct; each expecting any ack type); no parked waiters
    //@ assumes: representation invariant of the queue (distinct ids, id set == ids of the queue); every outstanding send has a reply channel (awaiting APIs)
    //@ mem: 16  timeout: 900
    //@ desc: ack routing step: a send completes successfully only with the ack of the type it expects carrying its id, and only the OLDEST send can complete; any other ack completes nothing, never panics, and ends the connection (close requested, every pending send resolves disconnected)
    //@ stubs: yes
    #[kani::stub(<codec::Codec as Encoder>::encodev, stub_encodev3)]
    fn sh3_ack_step_n2() unwind(5) {
        ack_step(2)
    }
}
vharness! {
    //@ props: C06
    //@ env: VERIF_MVEC_CAP=1
    //@ tier: quick
    //@ functions: v3::shared::MqttShared::{pkt_ack, pkt_ack_inner, close, clear_queues}, Ack::{packet_id, is_match, packet_type}, pool channel (model), VecDeque/HashSet (models), IoRef (model)
    //@ bounds: ONE acknowledgement (any of the 5 kinds, any non-zero id) against an arbitrary outstanding queue of exactly 3 sends (ids: u16 full width, pairwise distinct; each expecting any ack type); no parked waiters
    //@ assumes: representation invariant of the queue (distinct ids, id set == ids of the queue); every outstanding send has a reply channel (awaiting APIs)
    //@ mem: 16  timeout: 900
    //@ desc: ack routing step: a send completes successfully only with the ack of the type it expects carrying its id, and only the OLDEST send can complete; any other ack completes nothing, never panics, and ends the connection (close requested, every pending send resolves disconnected)
    //@ stubs: yes
    #[kani::stub(<codec::Codec as Encoder>::encodev, stub_encodev3)]
    fn sh3_ack_step_n3() unwind(5) {
        ack_step(3)
    }
}

// =============================================================================================
// window / wake-up steps (C05, C13)

/// `n` outstanding sends without reply channels (only the queue length matters to the callers)
fn fill_outstanding_plain(sh: &MqttShared, n: usize) {
    let mut i = 0;
    while i < n {
        let id = num::NonZeroU16::new(100 + i as u16).unwrap();
        let (tx, rx) = sh.pool.queue.channel();
        std::mem::forget(rx);
        let mut q = sh.queues.borrow_mut();
        q.inflight.push_back((id, Some(tx), AckType::Publish));
        q.inflight_ids.insert(id);
        i += 1;
    }
}
const NW: usize = 3;
/// `w` parked senders, each either still waiting (receiver kept) or cancelled (future dropped)
fn arb_waiters(sh: &MqttShared, w: usize) -> [Option<pool::Receiver<()>>; NW] {
    let mut rxs: [Option<pool::Receiver<()>>; NW] = [const { None }; NW];
    let mut i = 0;
    while i < w {
        let (tx, rx) = sh.pool.waiters.channel();
        sh.queues.borrow_mut().waiters.push_back(tx);
        if vk::any_bool() {
            rxs[i] = Some(rx);
        } else {
            drop(rx);
        }
        i += 1;
    }
    rxs
}
/// Some(true) = signalled (may proceed), Some(false) = failed, None = still parked
fn peek_unit(rx: &pool::Receiver<()>) -> Option<bool> {
    let mut cx = vio::noop_cx();
    match rx.poll_recv(&mut cx) {
        Poll::Pending => None,
        Poll::Ready(Ok(())) => Some(true),
        Poll::Ready(Err(_)) => Some(false),
    }
}
/// checks the FIFO wake discipline after an operation that may hand out `budget` free slots:
/// live waiters are signalled strictly in queue order, at most `budget` of them, and if a live
/// waiter is left parked then the whole budget was used. Returns the number signalled.
fn check_wakes(sh: &MqttShared, rxs: &[Option<pool::Receiver<()>>; NW], w: usize, budget: usize) -> usize {
    let mut signalled = 0usize;
    let mut parked = 0usize;
    let mut i = 0;
    while i < w {
        if let Some(rx) = rxs[i].as_ref() {
            match peek_unit(rx) {
                Some(true) => {
                    assert!(parked == 0, "a later waiter was woken while an earlier live waiter stays parked");
                    signalled += 1;
                }
                Some(false) => panic!("a parked sender was failed although the connection is healthy"),
                None => parked += 1,
            }
        }
        i += 1;
    }
    assert!(signalled <= budget, "more senders woken than slots were freed");
    if parked > 0 {
        assert!(signalled == budget, "lost wake-up: a slot is free, a live sender stays parked");
    }
    signalled
}

fn readiness_step(n: usize) {
    vio::with_io(move |io| {
        let sh = new_shared(io);
        let cap = vk::any_usize();
        sh.cap.set(cap);
        let wrb = vk::any_bool();
        if wrb {
            sh.enable_wr_backpressure();
        }
        fill_outstanding_plain(&sh, n);
        assert!(sh.credit() == if cap > n { cap - n } else { 0 });
        assert!(sh.is_ready() == (cap > n && !wrb));
        let r = sh.wait_readiness();
        let must_park = n >= cap || wrb;
        assert!(r.is_some() == must_park, "admission differs from: park iff outstanding >= limit or back-pressure");
        let q = sh.queues.borrow();
        assert!(q.inflight.len() == n);
        assert!(q.waiters.len() == if must_park { 1 } else { 0 });
        if let Some(rx) = r.as_ref() {
            assert!(peek_unit(rx).is_none(), "a freshly parked sender is already released");
        }
        vcover!(must_park && !wrb, "parked on the window");
        vcover!(!must_park, "admitted");
        drop(q);
        std::mem::forget(r);
        std::mem::forget(sh);
    })
}
macro_rules! readiness_inst {
    ($name:ident, $n:expr) => {
        vharness! {
            //@ props: C05 C13
            //@ env: VERIF_MVEC_CAP=1
            //@ tier: quick
            //@ functions: v3::shared::MqttShared::{wait_readiness, is_ready, credit, enable_wr_backpressure}
            //@ bounds: literal number of outstanding sends per instance (0..=3); send limit: usize full width; back-pressure flag any
            //@ assumes: none
            //@ desc: admission step: a sender is parked iff outstanding >= limit or write back-pressure is on; credit()/is_ready() agree with that; parking changes nothing else
            //@ stubs: yes
            #[kani::stub(<codec::Codec as Encoder>::encodev, stub_encodev3)]
            fn $name() unwind(5) {
                readiness_step($n)
            }
        }
    };
}
readiness_inst!(sh3_readiness_n0, 0);
readiness_inst!(sh3_readiness_n1, 1);
readiness_inst!(sh3_readiness_n3, 3);
//@ tier: thorough
readiness_inst!(sh3_readiness_n2, 2);

fn ack_wake_step(w: usize) {
    vio::with_io(move |io| {
        let sh = new_shared(io);
        sh.cap.set(vk::any_usize());
        if vk::any_bool() {
            sh.enable_wr_backpressure();
        }
        // the oldest outstanding send, waiting for an arbitrary ack type, correctly answered
        let tp = any_acktype();
        let id = nz(vk::any_u16());
        let (tx, rx) = sh.pool.queue.channel();
        {
            let mut q = sh.queues.borrow_mut();
            q.inflight.push_back((id, Some(tx), tp.real()));
            q.inflight_ids.insert(id);
        }
        let rxs = arb_waiters(&sh, w);
        let res = sh.pkt_ack(mk_ack(tp, id));
        assert!(res.is_ok());
        // PUBREC does not finish the exchange: no slot is freed
        let budget = if tp == K::Receive { 0 } else { 1 };
        let signalled = check_wakes(&sh, &rxs, w, budget);
        // cancelled waiters in front of the woken one are discarded, the rest stays queued in order
        let q = sh.queues.borrow();
        let mut live_after = 0usize;
        let mut i = 0;
        while i < w {
            if let Some(r) = rxs[i].as_ref() {
                if peek_unit(r).is_none() {
                    live_after += 1;
                }
            }
            i += 1;
        }
        assert!(q.waiters.len() >= live_after, "a parked live sender is no longer queued");
        vcover!(signalled == 1, "one sender woken");
        vcover!(signalled == 0 && tp != K::Receive, "final ack, nobody to wake");
        drop(q);
        std::mem::forget(rx);
        std::mem::forget(rxs);
        std::mem::forget(sh);
    })
}
macro_rules! ack_wake_inst {
    ($name:ident, $w:expr) => {
        vharness! {
            //@ props: C13 C05
            //@ env: VERIF_MVEC_CAP=1
            //@ tier: quick
            //@ functions: v3::shared::MqttShared::{pkt_ack, pkt_ack_inner} (wake loops), pool channel (model)
            //@ bounds: one outstanding send (any expected ack type, any id) correctly acknowledged; literal number of parked senders per instance (1..=3), each live or cancelled (dropped future); limit and back-pressure flag any
            //@ assumes: none beyond the queue invariant
            //@ mem: 12  timeout: 900
            //@ desc: one wake-up per freed slot: a final acknowledgement releases exactly the FIRST live parked sender (cancelled ones are skipped, not counted), PUBREC releases nobody, nobody is failed, live senders not released stay queued
            //@ stubs: yes
            #[kani::stub(<codec::Codec as Encoder>::encodev, stub_encodev3)]
            fn $name() unwind(6) {
                ack_wake_step($w)
            }
        }
    };
}
ack_wake_inst!(sh3_ack_wake_w1, 1);
ack_wake_inst!(sh3_ack_wake_w2, 2);
ack_wake_inst!(sh3_ack_wake_w3, 3);

fn wrb_off_step(n: usize, w: usize) {
    vio::with_io(move |io| {
        let sh = new_shared(io);
        let cap = vk::any_usize();
        sh.cap.set(cap);
        sh.enable_wr_backpressure();
        fill_outstanding_plain(&sh, n);
        let rxs = arb_waiters(&sh, w);
        // a streamed send parked on back-pressure: absent / live / cancelled
        let sw = vk::any_u8();
        vk::assume(sw < 3);
        let mut srx = None;
        if sw > 0 {
            let (tx, rx) = sh.pool.waiters.channel();
            sh.streaming_waiter.set(Some(tx));
            if sw == 1 {
                srx = Some(rx);
            } else {
                drop(rx);
            }
        }
        sh.disable_wr_backpressure();
        assert!(!sh.flags.get().contains(Flags::WRB_ENABLED));
        if let Some(rx) = srx.as_ref() {
            assert!(peek_unit(rx) == Some(true), "streamed send paused by back-pressure not resumed when it lifts");
        }
        let budget = if cap > n { cap - n } else { 0 };
        let signalled = check_wakes(&sh, &rxs, w, budget);
        vcover!(signalled == 2, "two senders released");
        vcover!(signalled == 0 && budget == 0, "window full: nobody released");
        std::mem::forget(srx);
        std::mem::forget(rxs);
        std::mem::forget(sh);
    })
}
macro_rules! wrb_off_inst {
    ($name:ident, $n:expr, $w:expr) => {
        vharness! {
            //@ props: C13 C05
            //@ env: VERIF_MVEC_CAP=1
            //@ tier: quick
            //@ functions: v3::shared::MqttShared::{disable_wr_backpressure, enable_wr_backpressure}, pool channel (model)
            //@ bounds: literal outstanding sends (0..=1) and parked senders (2) per instance, each parked sender live or cancelled; streamed-send waiter absent / live / cancelled; limit: usize full width
            //@ assumes: none
            //@ mem: 12  timeout: 900
            //@ desc: back-pressure lifts: the flag clears, a paused streamed send resumes, and the free window slots (limit - outstanding) are handed to live parked senders in FIFO order: never more than free slots, and no live sender stays parked while a slot is free
            //@ stubs: yes
            #[kani::stub(<codec::Codec as Encoder>::encodev, stub_encodev3)]
            fn $name() unwind(6) {
                wrb_off_step($n, $w)
            }
        }
    };
}
wrb_off_inst!(sh3_wrb_off_n0_w2, 0, 2);
wrb_off_inst!(sh3_wrb_off_n1_w2, 1, 2);
//@ tier: thorough
//@ bounds: 2 outstanding sends, 2 parked senders (thorough instance)
wrb_off_inst!(sh3_wrb_off_n2_w2, 2, 2);
//@ tier: thorough
//@ bounds: no outstanding send, 3 parked senders (thorough instance)
wrb_off_inst!(sh3_wrb_off_n0_w3, 0, 3);

fn set_cap_step(w: usize) {
    vio::with_io(move |io| {
        let sh = new_shared(io);
        let rxs = arb_waiters(&sh, w);
        let cap = vk::any_usize();
        vk::assume(cap <= 4);
        sh.set_cap(cap);
        assert!(sh.cap.get() == cap);
        let signalled = check_wakes(&sh, &rxs, w, cap);
        vcover!(signalled == 2, "two early senders released");
        std::mem::forget(rxs);
        std::mem::forget(sh);
    })
}
vharness! {
    //@ props: C05 C13
    //@ env: VERIF_MVEC_CAP=1
    //@ tier: quick
    //@ functions: v3::shared::MqttShared::set_cap
    //@ bounds: connection set-up state (nothing outstanding), 3 senders parked before the limit was known (each live or cancelled), new limit 0..=4
    //@ assumes: set_cap is called with nothing outstanding (its call sites: right after the handshake)
    //@ mem: 12  timeout: 900
    //@ desc: the limit becomes known: at most `limit` live parked senders are released, FIFO, none stays parked while a slot is free
    //@ stubs: yes
    #[kani::stub(<codec::Codec as Encoder>::encodev, stub_encodev3)]
    fn sh3_set_cap_w3() unwind(7) {
        set_cap_step(3)
    }
}

// =============================================================================================
// identifiers and registration (C06)
vharness! {
    //@ props: C06
    //@ env: VERIF_MVEC_CAP=1
    //@ tier: quick
    //@ functions: v3::shared::MqttShared::{next_id, set_publish_id}
    //@ bounds: id counter: every u16 value the code can store (0..=65534)
    //@ assumes: counter invariant: inflight_idx <= 65534 (next_id stores 0 instead of 65535)
    //@ desc: automatic identifiers are never 0, count 1..=65535 and wrap to 1; two consecutive ones differ; an explicit identifier is kept
    fn sh3_next_id() unwind(3) {
        vio::with_io(move |io| {
            let sh = new_shared(io);
            let c = vk::any_u16();
            vk::assume(c != u16::MAX);
            sh.inflight_idx.set(c);
            let a = sh.next_id().get();
            assert!(a == c + 1);
            assert!(sh.inflight_idx.get() != u16::MAX);
            let b = sh.next_id().get();
            assert!(b != 0 && a != b);
            assert!(b == if a == u16::MAX { 1 } else { a + 1 });
            let mut p = codec::Publish {
                dup: false,
                retain: false,
                qos: QoS::AtLeastOnce,
                topic: ntex_bytes::ByteString::new(),
                packet_id: None,
                payload_size: 0,
            };
            let want = vk::any_u16();
            p.packet_id = num::NonZeroU16::new(want);
            let got = sh.set_publish_id(&mut p).get();
            assert!(p.packet_id.map(|x| x.get()) == Some(got));
            if want != 0 {
                assert!(got == want);
            }
            vcover!(a == u16::MAX, "wrap");
            std::mem::forget(p);
            std::mem::forget(sh);
        })
    }
}

fn any_publish(qos: QoS) -> (codec::Publish, Option<Bytes>) {
    let mut p = codec::Publish {
        dup: false,
        retain: false,
        qos,
        topic: ntex_bytes::ByteString::from_static("t"),
        packet_id: None,
        payload_size: vk::any_u32(),
    };
    // complete payload (2 bytes) or a streamed one (no first chunk)
    let payload = if vk::any_bool() {
        vk::assume(p.payload_size == 2);
        Some(Bytes::from_static(b"ab"))
    } else {
        None
    };
    (p, payload)
}

fn register_step(n: usize) {
    vio::with_io(move |io| {
        let sh = new_shared(io);
        sh.cap.set(vk::any_usize());
        // peer Maximum Packet Size: unlimited, or so small that the PUBLISH cannot be encoded
        let tiny = vk::any_bool();
        if tiny {
            sh.codec.set_max_size(4);
        }
        let (outs, _) = arb_outstanding(&sh, n);
        let id = nz(vk::any_u16());
        let in_use = {
            let mut f = false;
            let mut i = 0;
            while i < n {
                if outs[i].as_ref().unwrap().id == id {
                    f = true;
                }
                i += 1;
            }
            f
        };
        let publish = vk::any_bool();
        let tp = any_acktype();
        let mut streamed = false;
        let res = if publish {
            let (mut p, payload) = any_publish(QoS::AtLeastOnce);
            p.packet_id = Some(id);
            streamed = payload.is_none() && p.payload_size > 0;
            sh.wait_publish_response(id, tp.real(), p, payload)
        } else {
            sh.wait_response(id, tp.real())
        };
        let q = sh.queues.borrow();
        if in_use {
            assert!(matches!(res, Err(SendPacketError::PacketIdInUse(x)) if x == id), "identifier in use was accepted");
        }
        match res.as_ref() {
            Ok(rx) => {
                assert!(!in_use);
                assert!(q.inflight.len() == n + 1);
                let last = q.inflight.get(n).unwrap();
                assert!(last.0 == id && K::of(last.2) == tp && last.1.is_some());
                assert!(q.inflight_ids.contains(&id));
                assert!(peek(rx).is_none());
                if publish {
                    assert!(io.frames() == 1 && io.frame_first(0) & 0xf0 == 0x30, "registered without writing the PUBLISH");
                    assert!(sh.is_streaming() == streamed);
                } else {
                    assert!(io.frames() == 0);
                }
            }
            Err(_) => {
                // a send that fails locally leaves no trace: later sends are not affected by it
                assert!(q.inflight.len() == n, "failed send left an entry in the outstanding queue");
                assert!(q.inflight_ids.contains(&id) == in_use, "failed send left its identifier reserved");
                assert!(io.frames() == 0 && io.torn() == 0, "failed send left bytes on the wire");
                assert!(!sh.is_streaming(), "failed send left the connection waiting for payload chunks");
            }
        }
        // the older sends are untouched
        let mut i = 0;
        while i < n {
            let o = outs[i].as_ref().unwrap();
            assert!(q.inflight.get(i).unwrap().0 == o.id);
            assert!(peek(o.rx.as_ref().unwrap()).is_none());
            i += 1;
        }
        vcover!(res.is_ok() && publish, "publish registered");
        vcover!(res.is_err() && !in_use, "local encode failure");
        drop(q);
        std::mem::forget(res);
        std::mem::forget(outs);
        std::mem::forget(sh);
    })
}
macro_rules! register_inst {
    ($name:ident, $n:expr) => {
        vharness! {
            //@ props: C06 C08
            //@ env: VERIF_MVEC_CAP=1
            //@ tier: quick
            //@ functions: v3::shared::MqttShared::{wait_response, wait_publish_response, enable_streaming, check_streaming}, v3 Codec::encodev (real, through the IoRef model)
            //@ bounds: literal number of outstanding sends per instance (0..=2, ids u16 full width, distinct); new send: any non-zero id, any expected ack type; PUBLISH with a complete 2-byte payload or streamed (declared size u32 full width) or SUBSCRIBE-style registration; configured maximum outbound size unlimited or 4 (encode fails)
            //@ assumes: queue invariant
            //@ mem: 16  timeout: 900
            //@ desc: registering a send: an identifier still in use is refused (PacketIdInUse) and never queued twice; a successful registration appends exactly one entry at the back, reserves the id, writes exactly one PUBLISH; a send that fails locally leaves no entry, no reserved id, no bytes and no streaming state behind
            fn $name() unwind(5) {
                register_step($n)
            }
        }
    };
}
register_inst!(sh3_register_n0, 0);
register_inst!(sh3_register_n2, 2);
//@ tier: thorough
register_inst!(sh3_register_n1, 1);
//@ tier: thorough
register_inst!(sh3_register_n3, 3);

// =============================================================================================
// QoS 2 exchanges (C14)
fn push_out(sh: &MqttShared, id: num::NonZeroU16, tp: K) -> pool::Receiver<Ack> {
    let (tx, rx) = sh.pool.queue.channel();
    let mut q = sh.queues.borrow_mut();
    q.inflight.push_back((id, Some(tx), tp.real()));
    q.inflight_ids.insert(id);
    rx
}
fn rel(id: num::NonZeroU16) -> num::NonZeroU16 {
    id
}
fn is_ack(rx: &pool::Receiver<Ack>, kind: K, id: num::NonZeroU16) -> bool {
    peek(rx) == Some(Ok((kind, id)))
}

/// PUBREC then release, with `nb` (literal 0/1) other outstanding sends queued behind A
fn qos2_rec_rel(nb: usize) {
    vio::with_io(move |io| {
        let sh = new_shared(io);
        sh.cap.set(vk::any_usize());
        let a = nz(vk::any_u16());
        let b = nz(vk::any_u16());
        vk::assume(a != b);
        let rx_a = push_out(&sh, a, K::Receive);
        let mut rx_b = None;
        if nb > 0 {
            rx_b = Some(push_out(&sh, b, K::Publish));
        }
        // PUBREC(a): the sender obtains the receipt, the id stays in use, the exchange now waits for PUBCOMP
        assert!(sh.pkt_ack(mk_ack(K::Receive, a)).is_ok());
        assert!(is_ack(&rx_a, K::Receive, a));
        {
            let q = sh.queues.borrow();
            assert!(q.inflight_ids.contains(&a));
            assert!(q.inflight.len() == 1 + nb);
            // sends queued behind A keep their place in front of A's PUBCOMP entry
            if nb > 0 {
                assert!(q.inflight.get(0).unwrap().0 == b, "PUBREC reordered the sends that the peer acknowledges next");
            }
            let last = q.inflight.get(nb).unwrap();
            assert!(last.0 == a && K::of(last.2) == K::Complete);
        }
        // release: exactly one PUBREL carrying a
        let n0 = io.frames();
        let rx_c = match sh.release_publish(rel(a)) {
            Ok(rx) => rx,
            Err(_) => { assert!(false, "release refused"); return; }
        };
        assert!(io.frames() == n0 + 1, "release did not write exactly one packet");
        assert!(io.frame_first(n0) == 0x62 && io.frame_id(n0) == a.get(), "release wrote something other than PUBREL for its own id");
        assert!(peek(&rx_c).is_none());
        // a second release of the same receipt (e.g. by a drop handler) is refused and writes nothing
        assert!(sh.release_publish(rel(a)).is_err());
        assert!(io.frames() == n0 + 1, "a second PUBREL was written for one receipt");
        // the completion channel handed out is the one the PUBCOMP entry will complete
        let entry = {
            let mut q = sh.queues.borrow_mut();
            let mut e = q.inflight.pop_front();
            if nb > 0 {
                e = q.inflight.pop_front();
            }
            e
        };
        let (_, tx, _) = entry.unwrap();
        assert!(tx.unwrap().send(mk_ack(K::Complete, a)).is_ok(), "completion receiver already dropped");
        assert!(is_ack(&rx_c, K::Complete, a), "release returned a receiver that is not connected to its own PUBCOMP entry");
        assert!(!io.shutdown_requested());
        std::mem::forget((rx_a, rx_b, rx_c));
        std::mem::forget(sh);
    })
}
macro_rules! qos2_rec_rel_inst {
    ($name:ident, $nb:expr) => {
        vharness! {
            //@ props: C14
            //@ env: VERIF_MVEC_CAP=1
            //@ tier: quick
            //@ functions: v3::shared::MqttShared::{pkt_ack, pkt_ack_inner (PUBREC branch), release_publish}, pool channel (model)
            //@ bounds: one exactly-once send (any id) with a literal number (0/1) of other sends queued behind it (any other id)
            //@ assumes: queue invariant; v3 encoder abstracted to first byte + packet id (decided by C01/C09)
            //@ mem: 16  timeout: 1200
            //@ stubs: yes
            //@ desc: PUBREC delivers the receipt to its sender, keeps the id reserved and re-queues the exchange BEHIND the sends the peer acknowledges next; release writes exactly one PUBREL with its own id and returns the receiver its own PUBCOMP will complete; a second release writes nothing
            #[kani::stub(<codec::Codec as Encoder>::encodev, stub_encodev3)]
            fn $name() unwind(5) {
                qos2_rec_rel($nb)
            }
        }
    };
}
qos2_rec_rel_inst!(sh3_qos2_rec_rel_b0, 0);
qos2_rec_rel_inst!(sh3_qos2_rec_rel_b1, 1);

vharness! {
    //@ props: C14
    //@ env: VERIF_MVEC_CAP=1
    //@ tier: quick
    //@ functions: v3::shared::MqttShared::{pkt_ack, pkt_ack_inner (PUBCOMP branch)}
    //@ bounds: one exactly-once send waiting for PUBCOMP (any id), already released or not (the pending-release slot full or empty); one parked sender (live or cancelled)
    //@ assumes: queue invariant
    //@ mem: 16  timeout: 1200
    //@ stubs: yes
    //@ desc: PUBCOMP completes the releasing task's receiver with that PUBCOMP, frees the id and the window slot (one parked sender released), leaves nothing behind in the pending-release slot
    #[kani::stub(<codec::Codec as Encoder>::encodev, stub_encodev3)]
    fn sh3_qos2_comp() unwind(5) {
        vio::with_io(move |io| {
            let sh = new_shared(io);
            sh.cap.set(vk::any_usize());
            let a = nz(vk::any_u16());
            let (tx, rx_c) = sh.pool.queue.channel();
            let released = vk::any_bool();
            let mut held = None;
            {
                let mut q = sh.queues.borrow_mut();
                q.inflight.push_back((a, Some(tx), AckType::Complete));
                q.inflight_ids.insert(a);
                if released {
                    held = Some(rx_c);
                } else {
                    q.rx.push_back((a, rx_c));
                }
            }
            let rxs = arb_waiters(&sh, 1);
            assert!(sh.pkt_ack(mk_ack(K::Complete, a)).is_ok());
            if let Some(rx) = held.as_ref() {
                assert!(is_ack(rx, K::Complete, a), "exactly-once send not completed by its own PUBCOMP");
            }
            let q = sh.queues.borrow();
            assert!(q.rx.is_empty(), "stale completion receiver left among the pending releases");
            assert!(!q.inflight_ids.contains(&a) && q.inflight.len() == 0);
            drop(q);
            check_wakes(&sh, &rxs, 1, 1);
            std::mem::forget((held, rxs));
            std::mem::forget(sh);
        })
    }
}

vharness! {
    //@ props: C14
    //@ env: VERIF_MVEC_CAP=1
    //@ tier: quick
    //@ functions: v3::shared::MqttShared::{pkt_ack_inner (PUBREC branch), release_publish} (the single pending-release slot `rx`)
    //@ bounds: two concurrently outstanding exactly-once sends (any distinct ids): a has received its PUBREC and is not yet released when PUBREC(b) arrives
    //@ assumes: queue invariant
    //@ mem: 16  timeout: 1200
    //@ stubs: yes
    //@ finding: regression harness of former K4 (repaired in /repo): the completion receiver of a PUBREC'd send used to be parked in ONE Option slot
    //@ desc: PUBREC for a second exactly-once send while the first is not yet released: releasing a must still write PUBREL(a) and return the receiver of a's own PUBCOMP; releasing b likewise
    #[kani::stub(<codec::Codec as Encoder>::encodev, stub_encodev3)]
    fn sh3_qos2_pair() unwind(5) {
        vio::with_io(move |io| {
            let sh = new_shared(io);
            sh.cap.set(vk::any_usize());
            let a = nz(vk::any_u16());
            let b = nz(vk::any_u16());
            vk::assume(a != b);
            // state after PUBREC(a): [b: waits PUBREC, a: waits PUBCOMP], a's completion receiver pending release
            let rx_b = push_out(&sh, b, K::Receive);
            let (tx_ca, rx_ca) = sh.pool.queue.channel();
            {
                let mut q = sh.queues.borrow_mut();
                q.inflight.push_back((a, Some(tx_ca), AckType::Complete));
                q.inflight_ids.insert(a);
                q.rx.push_back((a, rx_ca));
            }
            assert!(sh.pkt_ack(mk_ack(K::Receive, b)).is_ok());
            assert!(is_ack(&rx_b, K::Receive, b));
            // a's completion must survive
            let front_alive = {
                let q = sh.queues.borrow();
                let e = q.inflight.get(0).unwrap();
                e.0 == a && e.1.as_ref().map_or(false, |tx| !tx.is_canceled())
            };
            assert!(front_alive, "K4: PUBREC of one exactly-once send cancelled the pending completion of another");
            let ra = sh.release_publish(rel(a));
            let rb = sh.release_publish(rel(b));
            assert!(ra.is_ok() && rb.is_ok(), "K4: releasing one exactly-once send consumed the completion of another");
            assert!(io.frames() == 2 && io.frame_id(0) == a.get() && io.frame_id(1) == b.get());
            std::mem::forget((rx_b, ra, rb));
            std::mem::forget(sh);
        })
    }
}

// =============================================================================================
// the window across a short schedule (C05)
vharness! {
    //@ props: C05
    //@ env: VERIF_MVEC_CAP=1
    //@ tier: quick
    //@ functions: v3::shared::MqttShared::{wait_readiness, wait_response, pkt_ack}
    //@ bounds: send limit 1; schedule: S1 sends; S2 parks on the full window; the peer acknowledges S1 (S2 is released); optionally a NEW sender S3 arrives before the released S2 runs; S2 registers
    //@ assumes: senders follow the awaiting protocol of sink.rs: wait_readiness, then (when released) register
    //@ mem: 16  timeout: 1200
    //@ finding: known K5: admission (`wait_readiness`) compares only the queue length with the limit and does not count senders that were released but have not registered yet, and a released sender does not re-check
    //@ desc: the number of registered un-acknowledged sends never exceeds the limit along the schedule
    //@ stubs: yes
    #[kani::stub(<codec::Codec as Encoder>::encodev, stub_encodev3)]
    fn sh3_window_race() unwind(5) {
        vio::with_io(move |io| {
            let sh = new_shared(io);
            sh.set_cap(1);
            let id = |k: u16| num::NonZeroU16::new(k).unwrap();
            // S1
            assert!(sh.wait_readiness().is_none());
            let r1 = sh.wait_response(id(1), AckType::Subscribe);
            assert!(r1.is_ok());
            // S2 parks
            let w2 = sh.wait_readiness();
            assert!(w2.is_some());
            // ack of S1 releases S2
            assert!(sh.pkt_ack(mk_ack(K::Subscribe, id(1))).is_ok());
            assert!(peek_unit(w2.as_ref().unwrap()) == Some(true));
            // a new sender may arrive before S2's task runs
            let mut r3 = None;
            if vk::any_bool() {
                if sh.wait_readiness().is_none() {
                    r3 = Some(sh.wait_response(id(3), AckType::Subscribe));
                }
            }
            // S2 runs
            let r2 = sh.wait_response(id(2), AckType::Subscribe);
            assert!(r2.is_ok());
            assert!(sh.queues.borrow().inflight.len() <= 1, "K5: more un-acknowledged sends registered than the send limit");
            std::mem::forget((r1, r2, r3, w2));
            std::mem::forget(sh);
        })
    }
}

vharness! {
    //@ twin_replay: thorough
    //@ props: C06 C05 C13 C14 C08
    //@ env: VERIF_MVEC_CAP=1
    //@ tier: quick
    //@ expect: fail
    //@ stubs: yes
    //@ desc: reachability twin of the v3 shared-state step harnesses (claims a correct acknowledgement of the oldest send is refused)
    #[kani::stub(<codec::Codec as Encoder>::encodev, stub_encodev3)]
    fn twin_sh3_ack_step() unwind(5) {
        vio::with_io(move |io| {
            let sh = new_shared(io);
            sh.cap.set(1);
            let id = nz(vk::any_u16());
            let rx = push_out(&sh, id, K::Publish);
            let rxs = arb_waiters(&sh, 1);
            let res = sh.pkt_ack(mk_ack(K::Publish, id));
            assert!(res.is_err() || rxs[0].as_ref().map_or(false, |r| peek_unit(r).is_none()));
            std::mem::forget((rx, rxs));
            std::mem::forget(sh);
        })
    }
}

// =============================================================================================
// streamed PUBLISH gate (C08) 
fn pub3(size: u32) -> codec::Publish {
    codec::Publish {
        dup: false,
        retain: false,
        qos: QoS::AtMostOnce,
        topic: ntex_bytes::ByteString::from_static("t"),
        packet_id: None,
        payload_size: size,
    }
}
fn chunk_of(n: usize) -> Bytes {
    match n {
        0 => Bytes::new(),
        1 => Bytes::from_static(b"a"),
        2 => Bytes::from_static(b"ab"),
        _ => Bytes::from_static(b"abc"),
    }
}
vharness! {
    //@ props: C08
    //@ env: VERIF_MVEC_CAP=1
    //@ tier: quick
    //@ stubs: yes
    //@ functions: v3::shared::MqttShared::{encode_publish, encode_packet, encode_publish_payload, check_streaming, enable_streaming, is_streaming, force_close}, v3 Codec::encodev (REAL: Publish / PayloadChunk arms and its `encoding_payload` counter)
    //@ bounds: a streamed QoS 0 PUBLISH with declared payload size 1..=3, first chunk absent; attempts to send other packets (a PUBLISH, an awaiting PUBLISH with an id in use or fresh); then ONE chunk of 0..=3 bytes (one step of the payload bookkeeping)
    //@ assumes: none
    //@ mem: 24  timeout: 1500
    //@ desc: while payload bytes are owed every other packet is refused (ExpectPayload) and writes nothing; chunks are written as long as they fit the declared size; a chunk that would exceed it writes nothing and aborts the connection; when exactly the declared size has been written other packets are accepted again; a chunk without a streamed PUBLISH is refused
    fn sh3_streaming_gate() unwind(6) {
        vio::with_io(move |io| {
            let sh = new_shared(io);
            sh.cap.set(8);
            let busy = nz(vk::any_u16());
            let busy_rx = push_out(&sh, busy, K::Publish);
            std::mem::forget(busy_rx);
            // a chunk with nothing owed is refused
            assert!(matches!(sh.encode_publish_payload(chunk_of(1)), Err(EncodeError::UnexpectedPayload)));
            assert!(io.bytes_written() == 0);
            let size = vk::any_u32();
            vk::assume(size >= 1 && size <= 3);
            let p = pub3(size);
            assert!(sh.encode_publish(p, None).is_ok());
            let hdr = io.bytes_written();
            assert!(hdr > 0 && sh.is_streaming());
            let mut owed = size;
            let k = 1;
            let mut aborted = false;
            {
                // nothing else may be interleaved
                let before = io.bytes_written();
                assert!(matches!(sh.encode_publish(pub3(0), None), Err(EncodeError::ExpectPayload)), "another PUBLISH accepted inside a streamed payload");
                assert!(io.bytes_written() == before && io.torn() == 0);
                // neither may an awaiting send - with an identifier that is in use or a fresh one - get through,
                // and its failure must leave the payload bookkeeping alone
                let wid = if vk::any_bool() { busy } else { num::NonZeroU16::new(busy.get() ^ 1).unwrap_or(busy) };
                let r = sh.wait_publish_response(wid, AckType::Publish, { let mut x = pub3(0); x.qos = QoS::AtLeastOnce; x.packet_id = Some(busy); x }, None);
                assert!(r.is_err(), "an awaiting PUBLISH was accepted inside a streamed payload");
                std::mem::forget(r);
                assert!(io.bytes_written() == before && io.torn() == 0);
                assert!(sh.is_streaming(), "a refused send wiped the streamed-payload state");
                let n = vk::any_len(3);
                let r = sh.encode_publish_payload(chunk_of(n));
                if n as u32 > owed {
                    assert!(matches!(r, Err(EncodeError::OverPublishSize)));
                    assert!(io.bytes_written() == before, "over-long chunk partly written");
                    assert!(io.terminated(), "over-long payload: connection must be aborted, not continued");
                    aborted = true;
                } else {
                    owed -= n as u32;
                    assert!(r == Ok(owed > 0), "chunk accounting out of step with the declared size");
                    assert!(io.bytes_written() == before + n);
                    assert!(sh.is_streaming() == (owed > 0));
                }
            }
            if owed == 0 {
                // exactly the declared size is on the wire: the connection is usable again
                assert!(io.bytes_written() == hdr + size as usize);
                let q = pub3(0);
                assert!(sh.encode_publish(q, None).is_ok(), "connection unusable after a completed streamed payload");
            }
            vcover!(owed == 0 && k == 1, "completed by the chunk");
            vcover!(owed > 0 && !aborted, "payload still owed");
            vcover!(aborted, "aborted on an over-long chunk");
            std::mem::forget(sh);
        })
    }
}

