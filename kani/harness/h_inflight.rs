//! Harnesses mounted inside `inflight` (C12, the counter only): wake-up conditions of
//! `CounterInner::{inc, dec, available}` and `CounterGuard` for ALL counter values.
//! `LocalWaker` is the real ntex-util source; the waker is a counting RawWaker.
use super::*;
use crate::vk;
use std::cell::Cell;
use std::task::{Context, RawWaker, RawWakerVTable, Waker};

unsafe fn w_clone(p: *const ()) -> RawWaker {
    RawWaker::new(p, &W_VT)
}
unsafe fn w_wake(p: *const ()) {
    let c = unsafe { &*(p as *const Cell<u32>) };
    c.set(c.get() + 1);
}
unsafe fn w_drop(_p: *const ()) {}
static W_VT: RawWakerVTable = RawWakerVTable::new(w_clone, w_wake, w_wake, w_drop);

fn counting_waker(c: &'static Cell<u32>) -> Waker {
    unsafe { Waker::from_raw(RawWaker::new(c as *const Cell<u32> as *const (), &W_VT)) }
}

/// the documented readiness predicate of the counter ("below the capacity, and not beyond one
/// packet of slack over the byte budget"; 0 = unlimited), written independently
fn spec_available(max_cap: u16, cur_cap: u16, max_size: usize, cur_size: usize) -> bool {
    (max_cap == 0 || cur_cap < max_cap) && (max_size == 0 || cur_size <= max_size)
}

vharness! {
    //@ props: C12
    //@ tier: quick
    //@ functions: inflight::CounterInner::{dec, available}, Counter::is_available, ntex_util::task::LocalWaker::{register, wake} (real source)
    //@ bounds: ONE release from an arbitrary counter state (inductive step): max_cap, cur_cap: u16 full width; max_size, cur_size: usize full width; size: u32 full width
    //@ assumes: representation invariant before a release: cur_cap >= 1 and cur_size >= size (a guard of that size is outstanding); max_size == 0 implies size == 0 (InFlightServiceImpl::call passes 0 when the byte limit is off)
    //@ desc: no lost wake-up on release: a reader parked by available() is woken whenever the release makes the counter available again; no underflow; availability equals the documented predicate
    fn ct_step_dec() unwind(3) {
        let max_cap = vk::any_u16();
        let max_size = vk::any_usize();
        let cur_cap = vk::any_u16();
        let cur_size = vk::any_usize();
        let size = vk::any_u32();
        vk::assume(cur_cap >= 1);
        vk::assume(cur_size >= size as usize);
        vk::assume(max_size != 0 || size == 0);
        let c = Counter::new(max_cap, max_size);
        c.0.cur_cap.set(cur_cap);
        c.0.cur_size.set(cur_size);
        let wakes: &'static Cell<u32> = Box::leak(Box::new(Cell::new(0)));
        let waker = counting_waker(wakes);
        let mut cx = Context::from_waker(&waker);
        // the reader polls readiness: registers, sees the pre-state
        let avail_pre = c.0.available(&mut cx);
        assert!(avail_pre == spec_available(max_cap, cur_cap, max_size, cur_size));
        assert!(c.is_available() == avail_pre);
        c.0.dec(size);
        let avail_post = c.is_available();
        assert!(avail_post == spec_available(max_cap, cur_cap - 1, max_size, cur_size - size as usize));
        if !avail_pre && avail_post {
            assert!(wakes.get() >= 1, "lost wake-up: counter became available, parked reader not woken");
        }
        vcover!(!avail_pre && avail_post && max_cap != 0 && cur_cap == max_cap, "capacity boundary crossing");
        vcover!(!avail_pre && avail_post && cur_size > max_size && max_size != 0, "size threshold crossing");
        vcover!(!avail_pre && !avail_post, "still unavailable");
        vcover!(cur_cap > max_cap && max_cap != 0, "above capacity (streaming bypass)");
    }
}

vharness! {
    //@ twin_replay: yes
    //@ props: C12
    //@ tier: quick
    //@ expect: fail
    //@ desc: reachability twin of ct_step_dec (claims a release never makes the counter available)
    fn twin_ct_step_dec() unwind(3) {
        let max_cap = vk::any_u16();
        let cur_cap = vk::any_u16();
        vk::assume(cur_cap >= 1);
        let c = Counter::new(max_cap, 0);
        c.0.cur_cap.set(cur_cap);
        let pre = c.is_available();
        c.0.dec(0);
        assert!(!(!pre && c.is_available()));
    }
}

vharness! {
    //@ props: C12
    //@ tier: quick
    //@ functions: inflight::CounterInner::{inc, available}, CounterGuard::new, Counter::{get, is_available}
    //@ bounds: ONE acquisition from an arbitrary counter state: max_cap, cur_cap: u16; max_size, cur_size: usize; size: u32 - all full width
    //@ assumes: cur_cap < 65535 and cur_size + size does not exceed usize (fewer than 65535 invocations outstanding, each at most u32::MAX bytes); max_size == 0 implies size == 0
    //@ desc: an acquisition never overflows inside the stated invariant, updates both counters exactly, and availability afterwards equals the documented predicate (handlers at once <= cap, bytes beyond one packet of slack never admitted)
    fn ct_step_inc() unwind(3) {
        let max_cap = vk::any_u16();
        let max_size = vk::any_usize();
        let cur_cap = vk::any_u16();
        let cur_size = vk::any_usize();
        let size = vk::any_u32();
        vk::assume(cur_cap < u16::MAX);
        vk::assume(cur_size <= usize::MAX - size as usize);
        vk::assume(max_size != 0 || size == 0);
        let c = Counter::new(max_cap, max_size);
        c.0.cur_cap.set(cur_cap);
        c.0.cur_size.set(cur_size);
        let pre = c.is_available();
        let g = c.get(size);
        assert!(c.0.cur_cap.get() == cur_cap + 1);
        assert!(c.0.cur_size.get() == cur_size + size as usize);
        let post = c.is_available();
        assert!(post == spec_available(max_cap, cur_cap + 1, max_size, cur_size + size as usize));
        // admitted while available => at most cap invocations, and the bytes BEFORE this packet were within budget
        if pre && max_cap != 0 {
            assert!(cur_cap + 1 <= max_cap);
        }
        if pre && max_size != 0 {
            assert!(cur_size <= max_size);
        }
        drop(g);
        // releasing restores the state exactly
        assert!(c.0.cur_cap.get() == cur_cap && c.0.cur_size.get() == cur_size);
        vcover!(pre && !post, "acquisition exhausts the limit");
        vcover!(pre && post, "still available");
        vcover!(!pre, "acquired while unavailable (bypass)");
    }
}

vharness! {
    //@ props: C12
    //@ tier: quick
    //@ functions: inflight::Counter::{new, get, is_available}, CounterGuard::{new, drop}, CounterInner::{inc, dec, available}, LocalWaker (real source)
    //@ bounds: from the initial state: 3 acquisitions with symbolic sizes then the 3 releases in every order (symbolic permutation), a reader parked before each release; max_cap in 0..=3, max_size: usize and sizes: u32 full width
    //@ assumes: max_size == 0 implies sizes == 0
    //@ desc: history check from Counter::new: availability equals the documented predicate after every step and a parked reader is woken at every unavailable->available transition, for all release orders
    fn ct_seq3() unwind(5) {
        let max_cap = vk::any_u16();
        vk::assume(max_cap <= 3);
        let max_size = vk::any_usize();
        let s = [vk::any_u32(), vk::any_u32(), vk::any_u32()];
        vk::assume(max_size != 0 || (s[0] == 0 && s[1] == 0 && s[2] == 0));
        let order = vk::any_u8();
        vk::assume(order < 6);
        let perm: [usize; 3] = match order {
            0 => [0, 1, 2],
            1 => [0, 2, 1],
            2 => [1, 0, 2],
            3 => [1, 2, 0],
            4 => [2, 0, 1],
            _ => [2, 1, 0],
        };
        let c = Counter::new(max_cap, max_size);
        let wakes: &'static Cell<u32> = Box::leak(Box::new(Cell::new(0)));
        let waker = counting_waker(wakes);
        let mut cx = Context::from_waker(&waker);
        let mut cap: u16 = 0;
        let mut bytes: usize = 0;
        let mut g: [Option<CounterGuard>; 3] = [None, None, None];
        let mut i = 0;
        while i < 3 {
            g[i] = Some(c.get(s[i]));
            cap += 1;
            bytes += s[i] as usize;
            assert!(c.is_available() == spec_available(max_cap, cap, max_size, bytes));
            i += 1;
        }
        let mut i = 0;
        while i < 3 {
            let before = wakes.get();
            let pre = c.0.available(&mut cx);
            let k = perm[i];
            g[k] = None; // drops the guard
            cap -= 1;
            bytes -= s[k] as usize;
            let post = c.is_available();
            assert!(post == spec_available(max_cap, cap, max_size, bytes));
            if !pre && post {
                assert!(wakes.get() > before, "lost wake-up");
            }
            i += 1;
        }
        assert!(c.0.cur_cap.get() == 0 && c.0.cur_size.get() == 0);
        vcover!(max_cap == 2, "cap 2 with three outstanding");
        vcover!(max_cap == 0 && max_size != 0, "size limit only");
    }
}

// ---- service level: InFlightServiceImpl::{ready, call} gating (real async code, polled by hand) ----
use ntex_service::Pipeline;
use std::future::Future;
use std::rc::Rc;
use std::task::Poll;

#[derive(Clone, Copy, PartialEq)]
enum Kind { Other, Publish, PublishStreamed, Chunk }
struct Req { kind: Kind, size: u32 }
impl Req {
    /// the inbound item as the MQTT 3.1.1 codec hands it to the dispatcher
    fn real(&self) -> crate::v3::codec::Decoded {
        use crate::v3::codec::{Decoded, Packet, Publish};
        let publish = |declared: u32| Publish {
            dup: false,
            retain: false,
            qos: crate::types::QoS::AtMostOnce,
            topic: ntex_bytes::ByteString::new(),
            packet_id: None,
            payload_size: declared,
        };
        match self.kind {
            Kind::Other => Decoded::Packet(Packet::PingRequest, self.size),
            // a PUBLISH that arrived whole (no payload chunks follow)
            Kind::Publish => Decoded::Publish(publish(0), ntex_bytes::Bytes::new(), self.size),
            // a PUBLISH whose payload is still on its way: chunks follow
            Kind::PublishStreamed => Decoded::Publish(publish(5), ntex_bytes::Bytes::new(), self.size),
            Kind::Chunk => Decoded::PayloadChunk(ntex_bytes::Bytes::new(), false),
        }
    }
}
/// classification and size are the REAL ones of `impl SizedRequest for Decoded` (src/v3/dispatcher.rs,
/// extracted verbatim for the Kani flavour)
impl SizedRequest for Req {
    fn size(&self) -> u32 { SizedRequest::size(&self.real()) }
    fn is_publish(&self) -> bool { SizedRequest::is_publish(&self.real()) }
    fn is_chunk(&self) -> bool { SizedRequest::is_chunk(&self.real()) }
}
/// the wrapped service: a handler invocation stays pending until the gate opens; payload chunks are
/// consumed at once (the dispatcher feeds them to the payload reader and returns)
struct Gate { open: Cell<bool>, running: Cell<u32>, peak: Cell<u32> }
struct GateSvc(Rc<Gate>);
impl Service<Req> for GateSvc {
    type Response = ();
    type Error = ();
    async fn call(&self, req: Req, _ctx: ServiceCtx<'_, Self>) -> Result<(), ()> {
        if req.kind == Kind::Chunk {
            return Ok(());
        }
        let g = &self.0;
        g.running.set(g.running.get() + 1);
        if g.running.get() > g.peak.get() {
            g.peak.set(g.running.get());
        }
        std::future::poll_fn(|_cx| if g.open.get() { Poll::Ready(()) } else { Poll::Pending }).await;
        g.running.set(g.running.get() - 1);
        Ok(())
    }
}
fn poll1<F: Future>(f: std::pin::Pin<&mut F>, cx: &mut Context<'_>) -> Poll<F::Output> {
    f.poll(cx)
}
/// the future is leaked: its drop glue (coroutine states holding Rc guards) is not the subject of
/// any assertion and otherwise dominates symbolic execution
fn leak_pin<F: Future>(f: F) -> std::pin::Pin<&'static mut F>
where
    F: 'static,
{
    unsafe { std::pin::Pin::new_unchecked(Box::leak(Box::new(f))) }
}
type GatePipe = Pipeline<InFlightServiceImpl<GateSvc>>;
fn new_pipe(max_cap: u16, max_size: usize, gate: &Rc<Gate>) -> &'static GatePipe {
    Box::leak(Box::new(Pipeline::new(InFlightServiceImpl::new(max_cap, max_size, GateSvc(gate.clone())))))
}
fn new_gate() -> Rc<Gate> {
    Rc::new(Gate { open: Cell::new(false), running: Cell::new(0), peak: Cell::new(0) })
}

vharness! {
    //@ props: C12
    //@ tier: quick
    //@ functions: inflight::InFlightServiceImpl::{new, ready, call}, Counter::{get, is_available, available}, CounterGuard, ntex_service call/ready protocol (model of Pipeline), LocalWaker (real source)
    //@ bounds: max_cap in 1..=2, max_size: usize and request sizes: u32 full width; two NON-publish requests with gated handlers, then completion of the first
    //@ assumes: wrapped service always ready; one caller (the connection's read loop)
    //@ desc: service-level gating for ordinary packets: readiness before each request equals the documented predicate over the invocations still running (reading stops rather than exceed the limits), never more than cap handlers at once, and when a handler finishes the parked reader is woken and readiness returns
    //@ mem: 16  timeout: 900
    fn ct_gate_other() unwind(4) {
        let max_cap = vk::any_u16();
        vk::assume(max_cap >= 1 && max_cap <= 2);
        let max_size = vk::any_usize();
        let s1 = vk::any_u32();
        let s2 = vk::any_u32();
        let gate = new_gate();
        let p = new_pipe(max_cap, max_size, &gate);
        let wakes: &'static Cell<u32> = Box::leak(Box::new(Cell::new(0)));
        let waker = counting_waker(wakes);
        let mut cx = Context::from_waker(&waker);
        let z = |s: u32| if max_size > 0 { s as usize } else { 0 };
        // request 1
        {
            let mut r = leak_pin(p.ready::<Req>());
            assert!(poll1(r.as_mut(), &mut cx).is_ready());
        }
        let mut f1 = leak_pin(p.call(Req { kind: Kind::Other, size: s1 }));
        assert!(poll1(f1.as_mut(), &mut cx).is_pending());
        assert!(gate.running.get() == 1);
        // request 2: admitted iff the counter says so
        let avail1 = spec_available(max_cap, 1, max_size, z(s1));
        let mut r2 = leak_pin(p.ready::<Req>());
        let ready2 = poll1(r2.as_mut(), &mut cx).is_ready();
        assert!(ready2 == avail1, "readiness differs from the documented limit predicate");
        if ready2 {
            let mut f2 = leak_pin(p.call(Req { kind: Kind::Other, size: s2 }));
            assert!(poll1(f2.as_mut(), &mut cx).is_pending());
            assert!(gate.running.get() == 2);
            assert!(gate.peak.get() as u16 <= max_cap, "more handlers at once than max_receive");
            vcover!(max_cap == 2, "two handlers at once with cap 2");
        } else {
            // the reader is parked; the first handler finishes
            let before = wakes.get();
            gate.open.set(true);
            assert!(poll1(f1.as_mut(), &mut cx).is_ready());
            assert!(gate.running.get() == 0);
            assert!(wakes.get() > before, "handler finished, parked reader not woken");
            assert!(poll1(r2.as_mut(), &mut cx).is_ready(), "reading does not resume after the handler finished");
            vcover!(max_cap == 1, "cap-limited, resumed");
            vcover!(max_cap == 2 && max_size != 0, "size-limited, resumed");
        }
    }
}

vharness! {
    //@ props: C12
    //@ tier: quick
    //@ functions: inflight::InFlightServiceImpl::{ready, call} (streaming bypass: the `publish` flag), Counter
    //@ bounds: max_cap = 1; byte limit off (0) or 1 byte; a PUBLISH (size u32 full width) whose handler is gated, followed by 0..=3 payload chunks, readiness polled before each
    //@ assumes: wrapped service always ready; one caller
    //@ desc: while a payload is being streamed the remaining chunks are never held back by the limit (readiness stays true before every chunk, chunks are delivered), although the handler that reads them is the one occupying the limit
    //@ mem: 16  timeout: 900
    fn ct_gate_stream() unwind(5) {
        let max_size = if vk::any_bool() { 0usize } else { 1usize };
        let gate = new_gate();
        let p = new_pipe(1, max_size, &gate);
        let wakes: &'static Cell<u32> = Box::leak(Box::new(Cell::new(0)));
        let waker = counting_waker(wakes);
        let mut cx = Context::from_waker(&waker);
        let mut f1 = leak_pin(p.call(Req { kind: Kind::PublishStreamed, size: vk::any_u32() }));
        assert!(poll1(f1.as_mut(), &mut cx).is_pending());
        assert!(gate.running.get() == 1);
        let n = vk::any_len(3);
        let mut i = 0;
        while i < n {
            {
                let mut r = leak_pin(p.ready::<Req>());
                assert!(poll1(r.as_mut(), &mut cx).is_ready(), "payload chunk held back by the receive limit");
            }
            let mut c = leak_pin(p.call(Req { kind: Kind::Chunk, size: 0 }));
            assert!(poll1(c.as_mut(), &mut cx).is_ready(), "payload chunk not delivered");
            i += 1;
        }
        vcover!(n == 3, "three chunks");
    }
}

vharness! {
    //@ props: C12
    //@ tier: quick
    //@ functions: inflight::InFlightServiceImpl::{ready, call} (the `publish` flag), Counter
    //@ bounds: max_cap = 1, no size limit; two PUBLISH packets back to back (no chunks in between), first handler gated
    //@ assumes: wrapped service always ready; one caller
    //@ finding: regression harness of former K3 (repaired in /repo): SizedRequest::is_publish used to be true for complete publishes too, so the packet after ANY publish bypassed the limiter
    //@ desc: with max_receive = 1 and a first (complete) publish handler still running, reading stops before the second PUBLISH
    //@ mem: 16  timeout: 900
    fn ct_gate_publish_burst() unwind(4) {
        let gate = new_gate();
        let p = new_pipe(1, 0, &gate);
        let wakes: &'static Cell<u32> = Box::leak(Box::new(Cell::new(0)));
        let waker = counting_waker(wakes);
        let mut cx = Context::from_waker(&waker);
        let mut f1 = leak_pin(p.call(Req { kind: Kind::Publish, size: vk::any_u32() }));
        assert!(poll1(f1.as_mut(), &mut cx).is_pending());
        let mut r2 = leak_pin(p.ready::<Req>());
        let ready2 = poll1(r2.as_mut(), &mut cx).is_ready();
        if ready2 {
            let mut f2 = leak_pin(p.call(Req { kind: Kind::Publish, size: vk::any_u32() }));
            let _ = poll1(f2.as_mut(), &mut cx);
            assert!(gate.peak.get() <= 1, "more publish handlers at once than max_receive");
        }
        vcover!(!ready2, "second publish held back");
    }
}
