//! Harnesses mounted inside `v3::codec::codec` (access to the private decoder state):
//! frame layer of C02/C10 (one inductive step from an ARBITRARY decoder state), PUBLISH round
//! trip (C01), fragmentation independence (C10).
use super::*;
use crate::vh::{self, Rd};
use crate::vk;
use ntex_bytes::{Buf, ByteString, BytePages, Bytes, BytesMut};
use ntex_codec::{Decoder, Encoder};
use std::num::NonZeroU16;

use super::super::packet::Packet;

/// Stand-in for the 13 per-type body decoders (decided one by one in h_v3.rs): returns an
/// arbitrary result class. Only the frame layer is the subject here. Drawn AFTER all harness
/// inputs, so a native replay (which runs the real body decoder instead) stays aligned.
#[cfg(kani)]
pub(crate) fn stub_decode_packet(_src: Bytes, _first_byte: u8) -> Result<Packet, DecodeError> {
    if kani::any() { Ok(Packet::PingRequest) } else { Err(DecodeError::MalformedPacket) }
}

const MAX_RL: u32 = 268_435_455;

fn any_fixed() -> FixedHeader {
    let remaining_length = vk::any_u32();
    vk::assume(remaining_length <= MAX_RL); // invariant: produced by decode_variable_length
    FixedHeader { first_byte: vk::any_u8(), remaining_length }
}

/// Arbitrary decoder states satisfying the representation invariant of `Codec::decode`:
/// Frame(h) only for non-PUBLISH first bytes, PublishHeader(h) only for PUBLISH ones,
/// PublishPayload(n) only with 1 <= n <= MAX_RL, every stored length <= MAX_RL.
/// One harness per state VARIANT (a constant discriminant lets symbolic execution prune the
/// other arms); the fields inside the variant are fully symbolic.
fn any_state_frame() -> DecodeState {
    let h = any_fixed();
    vk::assume(!packet_type::is_publish(h.first_byte));
    DecodeState::Frame(h)
}
fn any_state_pubhdr() -> DecodeState {
    let h = any_fixed();
    vk::assume(packet_type::is_publish(h.first_byte));
    DecodeState::PublishHeader(h)
}
fn any_state_payload() -> DecodeState {
    let n = vk::any_u32();
    vk::assume(n >= 1 && n <= MAX_RL);
    DecodeState::PublishPayload(n)
}

/// spec view of a fixed header at the start of `b` (2.2.3): Some((first, rl, header_len)) if
/// complete; None if more bytes are needed
fn spec_fixed(b: &[u8]) -> Option<(u8, u32, usize)> {
    if b.len() < 2 {
        return None;
    }
    let mut mult: u32 = 1;
    let mut val: u32 = 0;
    let mut i = 1;
    while i < b.len() && i <= 4 {
        val += ((b[i] & 127) as u32) * mult;
        if b[i] & 128 == 0 {
            return Some((b[0], val, i + 1));
        }
        mult *= 128;
        i += 1;
    }
    None
}
/// a Remaining Length whose fourth byte still has the continuation bit is malformed (2.2.3: at
/// most four bytes)
fn spec_fixed_malformed(b: &[u8]) -> bool {
    b.len() >= 5 && b[1] & 128 != 0 && b[2] & 128 != 0 && b[3] & 128 != 0 && b[4] & 128 != 0
}

macro_rules! fr3_step_header {
    ($name:ident, $n:expr) => {
        vharness! {
            #[kani::stub(super::super::decode::decode_packet, stub_decode_packet)]
            fn $name() unwind(7) {
                let codec = Codec::new();
                let max_size = vk::any_u32();
                let min_chunk = vk::any_u32();
                codec.set_max_size(max_size);
                codec.set_min_chunk_size(min_chunk);
                let st = DecodeState::FrameHeader;
                codec.state.set(st);
                let data: [u8; $n] = vk::any_bytes::<$n>();
                let len = vk::any_len($n);
                let mut src = vk::bytesmut_of(data, len);
                let r = codec.decode(&mut src);           // no panic / overflow / OOB: Kani's checks
                let consumed = len - src.len();
                let post = codec.state.get();
                match st {
                    DecodeState::FrameHeader => {
                        let sf = spec_fixed(&data[..len]);
                        match sf {
                            None => {
                                // incomplete length field: need more data; over-long (5th byte): an error; nothing consumed
                                assert!(consumed == 0);
                                if spec_fixed_malformed(&data[..len]) {
                                    assert!(matches!(r, Err(_)), "five-byte Remaining Length must be rejected");
                                } else {
                                    assert!(r == Ok(None));
                                }
                                assert!(post == DecodeState::FrameHeader);
                            }
                            Some((first, rl, hl)) => {
                                if max_size != 0 && rl > max_size {
                                    // rejected as soon as the fixed header is seen, nothing consumed
                                    assert!(r == Err(DecodeError::MaxSizeExceeded { size: rl, max_size }));
                                    assert!(consumed == 0);
                                } else if !(first >= 0x30 && first <= 0x3f) {
                                    let avail = len - hl;
                                    if avail < rl as usize {
                                        assert!(r == Ok(None));
                                        assert!(consumed == hl);
                                        assert!(post == DecodeState::Frame(FixedHeader { first_byte: first, remaining_length: rl }));
                                    } else {
                                        // complete frame: exactly the frame is consumed, whatever the body decoder says
                                        assert!(consumed == hl + rl as usize);
                                        match &r {
                                            Ok(Some(Decoded::Packet(_, size))) => {
                                                assert!(*size == rl);
                                                assert!(post == DecodeState::FrameHeader);
                                            }
                                            Err(_) => {}
                                            _ => assert!(false),
                                        }
                                    }
                                } else {
                                    // PUBLISH: checked from the PublishHeader pre-state below; here only
                                    // that the header bytes are consumed at most once
                                    assert!(consumed >= hl || matches!(r, Err(_)));
                                }
                            }
                        }
                        vcover!(matches!(r, Ok(Some(Decoded::Packet(..)))), "FrameHeader: whole packet");
                        vcover!(matches!(r, Err(DecodeError::MaxSizeExceeded { .. })), "FrameHeader: max size exceeded");
                        vcover!(matches!(r, Ok(None)) && consumed > 0, "FrameHeader: header consumed, body pending");
                        vcover!(matches!(r, Ok(Some(Decoded::Publish(..)))), "FrameHeader: publish");
                        vcover!(spec_fixed_malformed(&data[..len]), "FrameHeader: over-long Remaining Length");
                    }
                    _ => unreachable!(),
                }
            }
        }
    };
}
macro_rules! fr3_step_frame {
    ($name:ident, $n:expr) => {
        vharness! {
            #[kani::stub(super::super::decode::decode_packet, stub_decode_packet)]
            fn $name() unwind(7) {
                let codec = Codec::new();
                let max_size = vk::any_u32();
                let min_chunk = vk::any_u32();
                codec.set_max_size(max_size);
                codec.set_min_chunk_size(min_chunk);
                let st = any_state_frame();
                codec.state.set(st);
                let data: [u8; $n] = vk::any_bytes::<$n>();
                let len = vk::any_len($n);
                let mut src = vk::bytesmut_of(data, len);
                let r = codec.decode(&mut src);           // no panic / overflow / OOB: Kani's checks
                let consumed = len - src.len();
                let post = codec.state.get();
                match st {
                    DecodeState::Frame(h) => {
                        if len < h.remaining_length as usize {
                            assert!(r == Ok(None) && consumed == 0 && post == st);
                        } else {
                            assert!(consumed == h.remaining_length as usize);
                            match &r {
                                Ok(Some(Decoded::Packet(_, size))) => {
                                    assert!(*size == h.remaining_length);
                                    assert!(post == DecodeState::FrameHeader);
                                }
                                Err(_) => {}
                                _ => assert!(false),
                            }
                        }
                        vcover!(matches!(r, Ok(Some(_))), "Frame: packet");
                        vcover!(matches!(r, Ok(None)), "Frame: need more");
                    }
                    _ => unreachable!(),
                }
            }
        }
    };
}
macro_rules! fr3_step_pubhdr {
    ($name:ident, $n:expr) => {
        vharness! {
            #[kani::stub(super::super::decode::decode_packet, stub_decode_packet)]
            fn $name() unwind(7) {
                let codec = Codec::new();
                let max_size = vk::any_u32();
                let min_chunk = vk::any_u32();
                codec.set_max_size(max_size);
                codec.set_min_chunk_size(min_chunk);
                let st = any_state_pubhdr();
                codec.state.set(st);
                let data: [u8; $n] = vk::any_bytes::<$n>();
                let len = vk::any_len($n);
                let mut src = vk::bytesmut_of(data, len);
                let r = codec.decode(&mut src);           // no panic / overflow / OOB: Kani's checks
                let consumed = len - src.len();
                let post = codec.state.get();
                match st {
                    DecodeState::PublishHeader(h) => {
                        // what the raw bytes say (3.3.2): variable header = 2 + topic length + (2 if QoS > 0)
                        let known = len >= 2;
                        let spec_hdr: u64 = if known {
                            2 + (((data[0] as u64) << 8) | data[1] as u64) + if (h.first_byte >> 1) & 3 != 0 { 2 } else { 0 }
                        } else {
                            0
                        };
                        if known && spec_hdr > h.remaining_length as u64 {
                            // the topic length already contradicts the Remaining Length: an error, at once -
                            // waiting for more bytes would swallow the frames that follow
                            assert!(matches!(r, Err(_)), "PUBLISH whose variable header exceeds its Remaining Length not reported as an error");
                        }
                        if known && spec_hdr <= h.remaining_length as u64 && len as u64 >= spec_hdr {
                            assert!(!matches!(r, Ok(None)), "complete PUBLISH header withheld");
                        }
                        match &r {
                            Ok(None) => assert!(consumed == 0 && post == st),
                            Ok(Some(Decoded::Publish(p, payload, size))) => {
                                assert!(*size == h.remaining_length);
                                // variable header = 2 + topic + (2 if QoS>0); it lies inside the frame
                                let hdr = 2 + p.topic.len() + if p.packet_id.is_some() { 2 } else { 0 };
                                assert!(hdr as u64 <= h.remaining_length as u64, "variable header longer than the frame");
                                assert!(p.payload_size as u64 == h.remaining_length as u64 - hdr as u64);
                                assert!(consumed == hdr + payload.len());
                                assert!(payload.len() as u64 <= p.payload_size as u64);
                                let rest = p.payload_size - payload.len() as u32;
                                if rest == 0 {
                                    assert!(post == DecodeState::FrameHeader);
                                } else {
                                    assert!(post == DecodeState::PublishPayload(rest));
                                    // a non-final non-empty piece is at least the configured minimum
                                    assert!(payload.is_empty() || payload.len() as u64 >= min_chunk as u64);
                                }
                            }
                            Err(_) => {}
                            _ => assert!(false),
                        }
                        vcover!(matches!(r, Ok(Some(Decoded::Publish(..)))) && matches!(post, DecodeState::PublishPayload(_)), "PublishHeader: payload pending");
                        vcover!(matches!(r, Ok(Some(Decoded::Publish(..)))) && post == DecodeState::FrameHeader, "PublishHeader: complete");
                        vcover!(matches!(r, Err(_)), "PublishHeader: error");
                    }
                    _ => unreachable!(),
                }
            }
        }
    };
}
macro_rules! fr3_step_payload {
    ($name:ident, $n:expr) => {
        vharness! {
            #[kani::stub(super::super::decode::decode_packet, stub_decode_packet)]
            fn $name() unwind(7) {
                let codec = Codec::new();
                let max_size = vk::any_u32();
                let min_chunk = vk::any_u32();
                codec.set_max_size(max_size);
                codec.set_min_chunk_size(min_chunk);
                let st = any_state_payload();
                codec.state.set(st);
                let data: [u8; $n] = vk::any_bytes::<$n>();
                let len = vk::any_len($n);
                let mut src = vk::bytesmut_of(data, len);
                let r = codec.decode(&mut src);           // no panic / overflow / OOB: Kani's checks
                let consumed = len - src.len();
                let post = codec.state.get();
                match st {
                    DecodeState::PublishPayload(rem) => {
                        match &r {
                            Ok(None) => assert!(consumed == 0 && post == st),
                            Ok(Some(Decoded::PayloadChunk(chunk, eof))) => {
                                assert!(consumed == chunk.len());
                                assert!(!chunk.is_empty());
                                assert!(chunk.len() as u64 <= rem as u64);
                                assert!(*eof == (chunk.len() as u64 == rem as u64));
                                if *eof {
                                    assert!(post == DecodeState::FrameHeader);
                                } else {
                                    assert!(post == DecodeState::PublishPayload(rem - chunk.len() as u32));
                                    assert!(chunk.len() as u64 >= min_chunk as u64);
                                }
                            }
                            _ => assert!(false),
                        }
                        // progress: a payload that is completely buffered is delivered
                        if len as u64 >= rem as u64 {
                            assert!(matches!(r, Ok(Some(Decoded::PayloadChunk(_, true)))));
                        }
                        vcover!(matches!(r, Ok(Some(Decoded::PayloadChunk(_, true)))), "PublishPayload: final chunk");
                        vcover!(matches!(r, Ok(Some(Decoded::PayloadChunk(_, false)))), "PublishPayload: non-final chunk");
                        vcover!(matches!(r, Ok(None)), "PublishPayload: need more");
                    }
                    _ => unreachable!(),
                }
            }
        }
    };
}
//@ props: C02 C10
//@ tier: quick
//@ stubs: yes
//@ functions: v3::Codec::decode (FrameHeader arm and what it falls through to), utils::decode_variable_length(_cursor), packet_type::is_publish, decode::publish_size, decode::decode_publish_packet
//@ bounds: ONE decode call from the idle state; max_size, min_chunk_size full-width u32; buffer 0..=8 arbitrary bytes
//@ unwindset: utf8_is_valid=8 spec_fixed=6 decode_variable_length_cursor=6
//@ assumes: body decoders replaced by an arbitrary-result stub (decided per type in h_v3.rs)
//@ mem: 8  timeout: 900
//@ desc: frame layer from idle: no panic/overflow; incomplete header consumes nothing; over-size frame rejected on the fixed header with nothing consumed; incomplete body consumes exactly the header; complete frame consumes exactly 1+len(RL)+RL whatever the body decoder says
fr3_step_header!(fr3_step_header, 8);
//@ props: C02 C10
//@ tier: quick
//@ stubs: yes
//@ functions: v3::Codec::decode (Frame arm)
//@ bounds: ONE decode call from an arbitrary Frame(first_byte, remaining_length<=268435455) state (inductive step); buffer 0..=8 arbitrary bytes
//@ assumes: state invariant of Codec::decode (Frame only for non-PUBLISH first byte, PublishHeader only for PUBLISH, lengths <= 268435455, pending payload >= 1); body decoders replaced by an arbitrary-result stub (decided per type in h_v3.rs)
//@ desc: frame layer, body pending: nothing consumed until the whole body is buffered, then exactly remaining_length bytes
fr3_step_frame!(fr3_step_frame, 8);
//@ props: C02 C10
//@ tier: quick
//@ stubs: yes
//@ functions: v3::Codec::decode (PublishHeader arm), decode::publish_size, decode::decode_publish_packet, utils::Decode for ByteString/NonZeroU16
//@ bounds: ONE decode call from an arbitrary PublishHeader(first_byte in 0x30..=0x3f, remaining_length<=268435455) state; min_chunk_size full width; buffer 0..=8 arbitrary bytes
//@ unwindset: utf8_is_valid=8
//@ assumes: state invariant of Codec::decode (Frame only for non-PUBLISH first byte, PublishHeader only for PUBLISH, lengths <= 268435455, pending payload >= 1); body decoders replaced by an arbitrary-result stub (decided per type in h_v3.rs)
//@ mem: 8  timeout: 900
//@ desc: PUBLISH variable header: lies inside the frame (Remaining Length >= 2+topic+id, else error - never an underflow), payload_size == RL - header, first payload piece bounded, next state exact, minimum chunk respected
fr3_step_pubhdr!(fr3_step_pubhdr, 8);
//@ props: C02 C10
//@ tier: quick
//@ stubs: yes
//@ functions: v3::Codec::decode (PublishPayload arm)
//@ bounds: ONE decode call from an arbitrary PublishPayload(1..=268435455) state; min_chunk_size full width; buffer 0..=8 arbitrary bytes
//@ assumes: state invariant of Codec::decode (Frame only for non-PUBLISH first byte, PublishHeader only for PUBLISH, lengths <= 268435455, pending payload >= 1); body decoders replaced by an arbitrary-result stub (decided per type in h_v3.rs)
//@ desc: payload streaming: chunk non-empty, never beyond the pending remainder, eof iff remainder exhausted, non-final chunk >= min_chunk_size, a fully buffered remainder is always delivered
fr3_step_payload!(fr3_step_payload, 8);

vharness! {
    //@ props: C02 C10
    //@ twin_replay: yes
    //@ tier: quick
    //@ stubs: yes
    //@ expect: fail
    //@ desc: reachability twin of fr3_step (claims decode never yields an item)
    #[kani::stub(super::super::decode::decode_packet, stub_decode_packet)]
    fn twin_fr3_step() unwind(7) {
        let codec = Codec::new();
        codec.state.set(any_state_payload());
        let data: [u8; 4] = vk::any_bytes::<4>();
        let len = vk::any_len(4);
        let mut src = vk::bytesmut_of(data, len);
        let r = codec.decode(&mut src);
        assert!(!matches!(r, Ok(Some(_))));
    }
}

// ---- PUBLISH round trip through the public codec (C01, C09) ---------------------------------------
fn any_publish3<const S: usize>() -> Publish {
    Publish {
        dup: vk::any_bool(),
        retain: vk::any_bool(),
        qos: vh::any_qos(),
        topic: vh::any_str::<S>(),
        packet_id: vh::any_opt_nz16(),
        payload_size: 0,
    }
}

vharness! {
    //@ props: C01 C09
    //@ tier: quick
    //@ stubs: yes
    //@ functions: v3::Codec::encodev (Publish arm), encode::encode_publish, get_encoded_publish_size, v3::Codec::decode (FrameHeader, PublishHeader arms), decode::publish_size, decode_publish_packet
    //@ bounds: dup/retain/qos/packet-id presence symbolic, id full width; topic 0..=2 bytes; payload 0..=3 symbolic bytes delivered with the header
    //@ unwindset: utf8_is_valid=4 slice_eq=5 expect_lp=4 expect_raw=5 decode_variable_length_cursor=6
    //@ assumes: topic well-formed UTF-8; non-PUBLISH body decoders stubbed (unreachable here)
    //@ desc: v3 PUBLISH: QoS0 with id / QoS>0 without id must be Err and append nothing; otherwise layout per spec 3.3, decode returns the same header and payload bytes and consumes exactly the frame
    #[kani::stub(super::super::decode::decode_packet, stub_decode_packet)]
    fn rt3_publish() unwind(7) {
        let mut p = any_publish3::<2>();
        let payload = vh::any_bin::<3>();
        p.payload_size = payload.len() as u32;
        let legal = (p.qos == QoS::AtMostOnce) == p.packet_id.is_none();
        let codec = Codec::new();
        let mut pages = BytePages::default();
        let r = codec.encodev(Encoded::Publish(p.clone(), Some(payload.clone())), &mut pages);
        if !legal {
            assert!(r.is_err());
            assert!(pages.len() == 0, "a failed encode appends no bytes");
            vcover!(p.qos == QoS::AtMostOnce, "QoS 0 with packet id rejected");
            vcover!(p.qos != QoS::AtMostOnce, "QoS>0 without packet id rejected");
            return;
        }
        assert!(r.is_ok());
        let out = pages.freeze();
        let first = 0x30 | ((p.dup as u8) << 3) | (vh::qos_num(p.qos) << 1) | (p.retain as u8);
        let mut rd = Rd::new(&out);
        assert!(rd.u8() == first);
        let rl = rd.varint();
        assert!(rl as usize == rd.left());
        assert!(rd.expect_lp(p.topic.as_bytes()));
        if let Some(id) = p.packet_id { assert!(rd.u16() == id.get()); }
        assert!(rd.expect_raw(&payload));
        assert!(rd.at_end() && !rd.bad);
        let mut src = BytesMut::from(out.clone());
        let d = Codec::new().decode(&mut src);
        assert!(src.len() == 0);
        assert!(d == Ok(Some(Decoded::Publish(p.clone(), payload, rl))));
        vcover!(p.qos == QoS::ExactlyOnce && p.dup && p.retain, "qos2 dup retain");
        vcover!(rl == 3 + 2 + 2 + 2, "max size in bound");
    }
}

vharness! {
    //@ props: C01 C09
    //@ tier: quick
    //@ functions: v3::Codec::encodev (Publish arm, streaming form), encode::encode_publish, get_encoded_publish_size, utils::write_variable_length
    //@ bounds: payload_size: u32 FULL WIDTH symbolic (payload not materialised: Encoded::Publish(pkt, None)); topic 0..=1 byte; qos/id symbolic
    //@ unwindset: utf8_is_valid=3 expect_lp=3
    //@ assumes: topic well-formed UTF-8; packet legal (QoS0 <=> no id)
    //@ desc: v3 PUBLISH Remaining Length arithmetic across the 1/2/3/4-byte boundaries for every declared payload size: RL == 2+topic+(2)+payload_size, encoded per spec
    fn rt3_publish_rl() unwind(6) {
        let mut p = any_publish3::<1>();
        p.payload_size = vk::any_u32();
        vk::assume((p.qos == QoS::AtMostOnce) == p.packet_id.is_none());
        let hdr = 2 + p.topic.len() as u64 + if p.packet_id.is_some() { 2 } else { 0 };
        let total = hdr + p.payload_size as u64;
        // above the MQTT maximum the encoder must refuse: rt3_publish_rl_over
        vk::assume(total <= 268_435_455);
        let codec = Codec::new();
        let mut pages = BytePages::default();
        let r = codec.encodev(Encoded::Publish(p.clone(), None), &mut pages);
        assert!(r.is_ok());
        let out = pages.freeze();
        let mut rd = Rd::new(&out);
        let _ = rd.u8();
        let rl = rd.varint();
        assert!(!rd.bad);
        assert!(rl as u64 == total);
        assert!(rd.pos == 1 + vh::spec_varint_len(rl));
        assert!(rd.left() as u64 == hdr);
        vcover!(rl == 127, "RL 127");
        vcover!(rl == 128, "RL 128");
        vcover!(rl == 16_383, "RL 16383");
        vcover!(rl == 16_384, "RL 16384");
        vcover!(rl == 2_097_151, "RL 2097151");
        vcover!(rl == 2_097_152, "RL 2097152");
        vcover!(rl == 268_435_455, "RL 268435455");
    }
}

vharness! {
    //@ props: C01 C09
    //@ tier: quick
    //@ functions: v3::Codec::encodev (Publish arm), encode::encode_publish, utils::write_variable_length
    //@ bounds: declared payload sizes for which 2+topic+id+payload_size exceeds 268435455 (the complement of rt3_publish_rl); configured outbound limit absent or any u32
    //@ unwindset: utf8_is_valid=3
    //@ desc: a v3 PUBLISH whose Remaining Length would exceed the MQTT maximum (incl. sizes that overflow u32) is refused with an error and nothing is appended (regression harness of the defect fixed in /repo, see known_findings.txt)
    fn rt3_publish_rl_over() unwind(6) {
        let mut p = any_publish3::<1>();
        p.payload_size = vk::any_u32();
        vk::assume((p.qos == QoS::AtMostOnce) == p.packet_id.is_none());
        let hdr = 2 + p.topic.len() as u64 + if p.packet_id.is_some() { 2 } else { 0 };
        vk::assume(hdr + p.payload_size as u64 > 268_435_455);
        let codec = Codec::new();
        // whatever outbound limit is configured - also one above the protocol maximum
        if vk::any_bool() {
            codec.set_max_size(vk::any_u32());
        }
        let mut pages = BytePages::default();
        let r = codec.encodev(Encoded::Publish(p.clone(), None), &mut pages);
        assert!(r.is_err());
        assert!(pages.len() == 0);
        vcover!(p.payload_size == u32::MAX, "largest declared size");
    }
}

// ---- C10: fragmentation independence through consecutive decode calls ---------------------------
/// Independent explanation of the decoder's output against the ORIGINAL stream: every item must
/// account for the next unexplained stream bytes (in order, nothing skipped, nothing invented).
struct StreamOracle {
    pos: usize,
    pending: u32, // payload bytes of the current PUBLISH still to be delivered
    in_payload: bool,
    items: u32,
}

fn oracle_step(o: &mut StreamOracle, data: &[u8], fed: usize, item: &Decoded) {
    o.items += 1;
    match item {
        Decoded::Packet(_, size) => {
            assert!(!o.in_payload, "packet interleaved into a streamed payload");
            let f = spec_fixed(&data[o.pos..fed]);
            assert!(f.is_some());
            let (first, rl, hl) = f.unwrap();
            assert!(!(first >= 0x30 && first <= 0x3f));
            assert!(rl == *size);
            assert!(o.pos + hl + rl as usize <= fed, "item produced from bytes not yet received");
            o.pos += hl + rl as usize;
        }
        Decoded::Publish(p, payload, size) => {
            assert!(!o.in_payload, "publish announced inside a streamed payload");
            let f = spec_fixed(&data[o.pos..fed]);
            assert!(f.is_some());
            let (first, rl, hl) = f.unwrap();
            assert!(first >= 0x30 && first <= 0x3f);
            assert!(rl == *size, "declared size");
            let b = o.pos + hl;
            // 3.3.2: topic, then packet id iff QoS > 0
            assert!(b + 2 <= fed);
            let tl = ((data[b] as usize) << 8) | data[b + 1] as usize;
            let qos = (first >> 1) & 3;
            let hdr = 2 + tl + if qos != 0 { 2 } else { 0 };
            assert!(b + hdr <= fed);
            assert!(p.topic.as_bytes() == &data[b + 2..b + 2 + tl]);
            if qos != 0 {
                let id = ((data[b + 2 + tl] as u16) << 8) | data[b + 3 + tl] as u16;
                assert!(p.packet_id.map(|v| v.get()) == Some(id));
            } else {
                assert!(p.packet_id.is_none());
            }
            assert!(p.dup == (first & 8 != 0) && p.retain == (first & 1 != 0) && vh::qos_num(p.qos) == qos);
            assert!(hdr as u64 <= rl as u64);
            assert!(p.payload_size as u64 == rl as u64 - hdr as u64, "announced once with its declared size");
            let pb = b + hdr;
            assert!(pb + payload.len() <= fed);
            assert!(&payload[..] == &data[pb..pb + payload.len()], "payload bytes are the stream bytes");
            assert!(payload.len() as u64 <= p.payload_size as u64, "payload leaked into the next packet");
            o.pos = pb + payload.len();
            o.pending = p.payload_size - payload.len() as u32;
            o.in_payload = o.pending > 0;
        }
        Decoded::PayloadChunk(chunk, eof) => {
            assert!(o.in_payload, "payload chunk without a pending publish");
            assert!(o.pos + chunk.len() <= fed);
            assert!(&chunk[..] == &data[o.pos..o.pos + chunk.len()], "payload bytes are the stream bytes, in order");
            assert!(chunk.len() as u64 <= o.pending as u64, "payload leaked into the next packet");
            o.pos += chunk.len();
            o.pending -= chunk.len() as u32;
            assert!(*eof == (o.pending == 0), "exactly one final piece, at the declared size");
            o.in_payload = o.pending > 0;
        }
    }
}

/// after a drain (decode returned Ok(None)): everything consumed is explained, and nothing that is
/// already complete in the buffer was withheld
fn oracle_quiescent(o: &StreamOracle, data: &[u8], fed: usize, buffered: usize, min_chunk: u32) {
    assert!(o.pos + buffered == fed, "bytes consumed without being delivered, or delivered twice");
    if o.in_payload {
        assert!((buffered as u64) < o.pending as u64);
        assert!(if min_chunk == 0 { buffered == 0 } else { (buffered as u64) < min_chunk as u64 });
    } else if let Some((first, rl, hl)) = spec_fixed(&data[o.pos..fed]) {
        if !(first >= 0x30 && first <= 0x3f) {
            assert!(o.pos + hl + rl as usize > fed, "complete frame withheld");
        }
    }
}

macro_rules! fg3_cut {
    ($name:ident, $n:expr, $k:expr) => {
        vharness! {
            #[kani::stub(super::super::decode::decode_packet, stub_decode_packet)]
            fn $name() unwind(10) {
                let codec = Codec::new();
                let min_chunk = vk::any_u32();
                vk::assume(min_chunk <= 4);
                codec.set_min_chunk_size(min_chunk);
                let data: [u8; $n] = vk::any_bytes::<$n>();
                let cut = vk::any_len($n);
                let mut o = StreamOracle { pos: 0, pending: 0, in_payload: false, items: 0 };
                let mut src = BytesMut::new();
                let mut seg = 0;
                let mut dead = false;
                while seg < 2 && !dead {
                    let (a, b) = if seg == 0 { (0, cut) } else { (cut, $n) };
                    src.extend_from_slice(&data[a..b]);
                    let fed = b;
                    let mut k = 0;
                    let mut quiet = false;
                    while k < $k && !quiet && !dead {
                        match codec.decode(&mut src) {
                            Ok(Some(item)) => oracle_step(&mut o, &data, fed, &item),
                            Ok(None) => {
                                oracle_quiescent(&o, &data, fed, src.len(), min_chunk);
                                quiet = true;
                            }
                            Err(_) => dead = true, // the connection ends here; everything before was checked
                        }
                        k += 1;
                    }
                    // the drain bound $k must suffice (else the harness is too small, not the code wrong)
                    assert!(quiet || dead, "harness drain bound too small");
                    seg += 1;
                }
                vcover!(!dead && o.items >= 2, "two items from one stream");
                vcover!(!dead && o.in_payload, "stream ends inside a payload");
                vcover!(!dead && cut > 0 && cut < $n && o.items >= 1 && o.pos > cut, "an item spans the cut");
            }
        }
    };
}
// (no instance of fg3_cut! is registered: the 5-byte / 6-call instance exhausted 40 GB in CBMC's
// propositional reduction, the 6-byte one did not finish symbolic execution; see DESIGN.md section 4 C10)

