//! Harness mounted inside `v5::handshake` (C19/C20: negotiated keep-alive).
use super::*;
use crate::{vio, vk};

vharness! {
    //@ props: C19 C20
    //@ tier: quick
    //@ functions: v5::handshake::Handshake::{new, ack}, HandshakeAck::keep_alive
    //@ bounds: CONNECT keep-alive: every u16 value
    //@ assumes: none
    //@ desc: the keep-alive period the MQTT 5 server enforces is 1.5 times the client's value (rounded down, saturating), 30 s when the client sends 0; an override by the application replaces it
    fn hs5_keepalive() unwind(3) {
        vio::with_io(move |io| {
            let ka = vk::any_u16();
            let mut pkt = codec::Connect::default();
            pkt.keep_alive = ka;
            let shared = Rc::new(MqttShared::new(io.ioref(), codec::Codec::new(), Rc::new(Default::default())));
            let hs = Handshake::new(Box::new(pkt), 0, io.take_boxed(), shared);
            let ack = hs.ack(());
            let want: u32 = if ka == 0 { 30 } else { let x = ka as u32 + ka as u32 / 2; if x > 65535 { 65535 } else { x } };
            assert!(ack.keepalive as u32 == want, "enforced keep-alive is not 1.5 x the client's value");
            let over = vk::any_u16();
            vk::assume(over != 0);
            let ack = ack.keep_alive(over);
            assert!(ack.keepalive == over);
            std::mem::forget(ack);
        })
    }
}
