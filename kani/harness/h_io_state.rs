//! Harnesses for the response re-sequencing step of io.rs (C04). Kani flavour: mounted inside a
//! generated module that holds `DispatcherState`, `ServiceResult`, `IoDispatcherError` and
//! `DispatcherState::handle_result` extracted VERBATIM from src/io.rs; replay flavour: mounted inside
//! the real io.rs. ONE completion from an ARBITRARY queue state (inductive step).
use super::*;
use crate::{vio, vk};
use ntex_bytes::{BytePages, BytesMut};
use ntex_service::ServiceCtx;

/// a codec whose items are one tag byte; every item becomes the 2-byte MQTT frame `[tag << 4, 0]`
#[derive(Clone)]
struct TCodec;
impl Encoder for TCodec {
    type Item = u8;
    type Error = EncodeError;
    fn encodev(&self, item: u8, dst: &mut BytePages) -> Result<(), EncodeError> {
        if item == 0 {
            // tag 0 stands for a response the encoder refuses
            return Err(EncodeError::MalformedPacket);
        }
        dst.extend_from_slice(&[item << 4, 0]);
        Ok(())
    }
}
impl Decoder for TCodec {
    type Item = u8;
    type Error = DecodeError;
    fn decode(&self, _src: &mut BytesMut) -> Result<Option<u8>, DecodeError> {
        Ok(None)
    }
}
struct TSvc;
impl Service<u8> for TSvc {
    type Response = Option<u8>;
    type Error = DispatcherError<()>;
    async fn call(&self, _req: u8, _ctx: ServiceCtx<'_, Self>) -> Result<Option<u8>, DispatcherError<()>> {
        Ok(None)
    }
}
type St = DispatcherState<TSvc, TCodec>;
type Res = Result<Option<u8>, DispatcherError<()>>;

fn new_state(base: usize) -> St {
    DispatcherState {
        error: Cell::new(None),
        base: Cell::new(base),
        queue: RefCell::new(VecDeque::new()),
        waker: LocalWaker::new(),
        response: Cell::new(None),
        response_idx: Cell::new(0),
    }
}
/// 0 = handler failed, 1 = no response owed, 2.. = a response with tag 1..=15 (1 byte on the wire), tag 0 = unencodable
fn any_res() -> (u8, Res) {
    let k = vk::any_u8();
    vk::assume(k <= 2);
    match k {
        0 => (0, Err(DispatcherError::Service(()))),
        1 => (1, Ok(None)),
        _ => {
            let tag = vk::any_u8();
            vk::assume(tag <= 15);
            (2 + tag, Ok(Some(tag)))
        }
    }
}
const NQ: usize = 4;

/// one completion against a queue of `n` (literal) slots: slot `k` is the one that completes now;
/// the other slots are Pending or already parked as Ready with arbitrary results
fn handle_step(n: usize) {
    vio::with_io(move |io| {
        let base = vk::any_usize();
        let st = new_state(base);
        let k = vk::any_len(n - 1);
        // pre-state: desc[i] = None (still pending) or Some(result code)
        let mut desc: [Option<u8>; NQ] = [None; NQ];
        let mut i = 0;
        while i < n {
            if i != k && vk::any_bool() {
                let (code, r) = any_res();
                // a parked handler failure is recorded in `error`, never parked (see the else arm of handle_result)
                vk::assume(code != 0);
                desc[i] = Some(code);
                st.queue.borrow_mut().push_back(ServiceResult::Ready(r));
            } else {
                st.queue.borrow_mut().push_back(ServiceResult::Pending);
            }
            i += 1;
        }
        let (code, item) = any_res();
        let ioref = io.ioref();
        let ret = st.handle_result(item, base.wrapping_add(k), &ioref, &TCodec);

        // ---- oracle: responses leave in request order, none lost, none duplicated ----
        // expected frames: if the completed slot is the oldest, its response and then every parked
        // response behind it up to the first slot still pending
        let mut want: [u8; NQ] = [0; NQ];
        let mut nw = 0usize;
        let mut removed = 0usize;
        let failed = code == 0;
        let mut enc_err = false;
        if k == 0 {
            removed = 1;
            if code >= 2 {
                if code == 2 { enc_err = true; } else { want[nw] = code - 2; nw += 1; }
            }
            let mut j = 1;
            while j < n {
                match desc[j] {
                    None => break,
                    Some(c) => {
                        removed += 1;
                        if c >= 2 {
                            if c == 2 { enc_err = true; } else { want[nw] = c - 2; nw += 1; }
                        }
                    }
                }
                j += 1;
            }
        }
        assert!(io.frames() == nw, "number of responses written differs from the responses that are due");
        let mut j = 0;
        while j < nw {
            assert!(io.frame_first(j) == want[j] << 4, "responses written out of request order");
            j += 1;
        }
        let q = st.queue.borrow();
        assert!(q.len() == n - removed, "queue slots lost or kept after their response left");
        assert!(st.base.get() == base.wrapping_add(removed), "slot numbering out of step with the queue");
        if k > 0 {
            // parked for later: the slot holds exactly this result (a failure goes to `error` instead)
            match q.get(k) {
                Some(ServiceResult::Ready(Ok(r))) => assert!(code >= 1 && *r == if code >= 2 { Some(code - 2) } else { None }),
                Some(ServiceResult::Ready(Err(_))) => assert!(false, "failure parked"),
                Some(ServiceResult::Pending) => assert!(code == 0, "completed response lost"),
                None => assert!(false),
            }
        }
        // the remaining slots keep their state and order
        let mut j = removed;
        while j < n {
            if j != k {
                let e = q.get(j - removed);
                match desc[j] {
                    None => assert!(matches!(e, Some(ServiceResult::Pending))),
                    Some(c) => assert!(matches!(e, Some(ServiceResult::Ready(Ok(r))) if *r == if c >= 2 { Some(c - 2) } else { None })),
                }
            }
            j += 1;
        }
        // failures reach the dispatcher: error recorded, and the dispatcher is told to look
        let err = st.error.take();
        if failed {
            assert!(matches!(err, Some(IoDispatcherError::Service(_))) || enc_err);
            assert!(ret, "handler failed but the dispatcher is not notified");
        }
        if enc_err && !failed {
            assert!(matches!(err, Some(IoDispatcherError::Encoder(_))), "encoder refusal not reported");
        }
        if !failed && !enc_err {
            assert!(err.is_none());
        }
        if k == 0 {
            assert!(ret == (failed || q.len() == 0));
        } else {
            assert!(ret == failed);
        }
        vcover!(n < 2 || nw >= 2, "a parked response drained behind the oldest");
        vcover!(n < 2 || (k > 0 && code >= 3), "response parked");
        vcover!(failed, "handler failure");
        drop(q);
        std::mem::forget(st);
    })
}
macro_rules! handle_inst {
    ($name:ident, $n:expr) => {
        vharness! {
            //@ props: C04
            //@ tier: quick
            //@ functions: io::DispatcherState::handle_result, io::ServiceResult::take (extracted verbatim from src/io.rs), IoRef::encode (model) with a one-byte test codec
            //@ bounds: ONE handler completion (failure / no response / response with any of 15 tags / unencodable response) at ANY slot of a response queue of a literal number of slots per instance (1..=4); every other slot pending or already parked with any result; slot numbering base: usize full width (wrap-around included)
            //@ assumes: queue invariant of call_service: slot i of the queue answers request base+i; failures are never parked (handle_result records them at once)
            //@ mem: 10  timeout: 900
            //@ desc: response re-sequencing step: a completion at the oldest slot writes its response followed by every response already parked behind it, in request order, up to the first request still running; a completion elsewhere writes nothing and is parked in its own slot; nothing is lost, duplicated or reordered; slot numbering stays in step; failures and encoder refusals reach the dispatcher
            fn $name() unwind(6) {
                handle_step($n)
            }
        }
    };
}
handle_inst!(io_handle_n1, 1);
handle_inst!(io_handle_n2, 2);
handle_inst!(io_handle_n3, 3);
handle_inst!(io_handle_n4, 4);

vharness! {
    //@ props: C04
    //@ tier: quick
    //@ expect: fail
    //@ desc: reachability twin of io_handle_*: claims a completion at the oldest slot never writes a response
    fn twin_io_handle() unwind(6) {
        vio::with_io(move |io| {
            let st = new_state(vk::any_usize());
            st.queue.borrow_mut().push_back(ServiceResult::Pending);
            let (_, item) = any_res();
            let ioref = io.ioref();
            let _ = st.handle_result(item, st.base.get(), &ioref, &TCodec);
            assert!(io.frames() == 0);
            std::mem::forget(st);
        })
    }
}
