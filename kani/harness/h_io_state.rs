//! Harnesses for the response re-sequencing step of io.rs (C04). Kani flavour: mounted inside a
//! generated module that holds `DispatcherState`, `ServiceResult`, `IoDispatcherError` and
//! `DispatcherState::handle_result` extracted VERBATIM from src/io.rs; replay flavour: mounted inside
//! the real io.rs. ONE completion from an ARBITRARY queue state (inductive step).
use super::*;
use crate::{vio, vk};
use ntex_bytes::{BytePages, BytesMut};
use ntex_service::ServiceCtx;

/// a codec whose items are one tag byte; every item becomes the 2-byte MQTT frame `[tag << 4, 0]`
#[derive(Clone)]
struct TCodec;
impl Encoder for TCodec {
    type Item = u8;
    type Error = EncodeError;
    fn encodev(&self, item: u8, dst: &mut BytePages) -> Result<(), EncodeError> {
        if item == 0 {
            // tag 0 stands for a response the encoder refuses
            return Err(EncodeError::MalformedPacket);
        }
        dst.extend_from_slice(&[item << 4, 0]);
        Ok(())
    }
}
impl Decoder for TCodec {
    type Item = u8;
    type Error = DecodeError;
    fn decode(&self, _src: &mut BytesMut) -> Result<Option<u8>, DecodeError> {
        Ok(None)
    }
}
struct TSvc;
impl Service<u8> for TSvc {
    type Response = Option<u8>;
    type Error = DispatcherError<()>;
    async fn call(&self, _req: u8, _ctx: ServiceCtx<'_, Self>) -> Result<Option<u8>, DispatcherError<()>> {
        Ok(None)
    }
}
type St = DispatcherState<TSvc, TCodec>;
type Res = Result<Option<u8>, DispatcherError<()>>;

fn new_state(base: usize) -> St {
    DispatcherState {
        error: Cell::new(None),
        base: Cell::new(base),
        queue: RefCell::new(VecDeque::new()),
        waker: LocalWaker::new(),
        response: Cell::new(None),
        response_idx: Cell::new(0),
    }
}
/// 0 = handler failed, 1 = no response owed, 2.. = a response with tag 1..=15 (1 byte on the wire), tag 0 = unencodable
fn any_res() -> (u8, Res) {
    let k = vk::any_u8();
    vk::assume(k <= 2);
    match k {
        0 => (0, Err(DispatcherError::Service(()))),
        1 => (1, Ok(None)),
        _ => {
            let tag = vk::any_u8();
            vk::assume(tag <= 15);
            (2 + tag, Ok(Some(tag)))
        }
    }
}
const NQ: usize = 4;

/// one completion against a queue of `n` (literal) slots: slot `k` is the one that completes now;
/// the other slots are Pending or already parked as Ready with arbitrary results
fn handle_step(n: usize) {
    vio::with_io(move |io| {
        let base = vk::any_usize();
        let st = new_state(base);
        let k = vk::any_len(n - 1);
        // pre-state: desc[i] = None (still pending) or Some(result code)
        let mut desc: [Option<u8>; NQ] = [None; NQ];
        let mut i = 0;
        while i < n {
            if i != k && vk::any_bool() {
                let (code, r) = any_res();
                // a parked handler failure is recorded in `error`, never parked (see the else arm of handle_result)
                vk::assume(code != 0);
                desc[i] = Some(code);
                st.queue.borrow_mut().push_back(ServiceResult::Ready(r));
            } else {
                st.queue.borrow_mut().push_back(ServiceResult::Pending);
            }
            i += 1;
        }
        let (code, item) = any_res();
        let ioref = io.ioref();
        let ret = st.handle_result(item, base.wrapping_add(k), &ioref, &TCodec);

        // ---- oracle: responses leave in request order, none lost, none duplicated ----
        // expected frames: if the completed slot is the oldest, its response and then every parked
        // response behind it up to the first slot still pending
        let mut want: [u8; NQ] = [0; NQ];
        let mut nw = 0usize;
        let mut removed = 0usize;
        let failed = code == 0;
        let mut enc_err = false;
        if k == 0 {
            removed = 1;
            if code >= 2 {
                if code == 2 { enc_err = true; } else { want[nw] = code - 2; nw += 1; }
            }
            let mut j = 1;
            while j < n {
                match desc[j] {
                    None => break,
                    Some(c) => {
                        removed += 1;
                        if c >= 2 {
                            if c == 2 { enc_err = true; } else { want[nw] = c - 2; nw += 1; }
                        }
                    }
                }
                j += 1;
            }
        }
        assert!(io.frames() == nw, "number of responses written differs from the responses that are due");
        let mut j = 0;
        while j < nw {
            assert!(io.frame_first(j) == want[j] << 4, "responses written out of request order");
            j += 1;
        }
        let q = st.queue.borrow();
        assert!(q.len() == n - removed, "queue slots lost or kept after their response left");
        assert!(st.base.get() == base.wrapping_add(removed), "slot numbering out of step with the queue");
        if k > 0 {
            // parked for later: the slot holds exactly this result (a failure goes to `error` instead)
            match q.get(k) {
                Some(ServiceResult::Ready(Ok(r))) => assert!(code >= 1 && *r == if code >= 2 { Some(code - 2) } else { None }),
                Some(ServiceResult::Ready(Err(_))) => assert!(false, "failure parked"),
                Some(ServiceResult::Pending) => assert!(code == 0, "completed response lost"),
                None => assert!(false),
            }
        }
        // the remaining slots keep their state and order
        let mut j = removed;
        while j < n {
            if j != k {
                let e = q.get(j - removed);
                match desc[j] {
                    None => assert!(matches!(e, Some(ServiceResult::Pending))),
                    Some(c) => assert!(matches!(e, Some(ServiceResult::Ready(Ok(r))) if *r == if c >= 2 { Some(c - 2) } else { None })),
                }
            }
            j += 1;
        }
        // failures reach the dispatcher: error recorded, and the dispatcher is told to look
        let err = st.error.take();
        if failed {
            assert!(matches!(err, Some(IoDispatcherError::Service(_))) || enc_err);
            assert!(ret, "handler failed but the dispatcher is not notified");
        }
        if enc_err && !failed {
            assert!(matches!(err, Some(IoDispatcherError::Encoder(_))), "encoder refusal not reported");
        }
        if !failed && !enc_err {
            assert!(err.is_none());
        }
        if k == 0 {
            assert!(ret == (failed || q.len() == 0));
        } else {
            assert!(ret == failed);
        }
        vcover!(n < 2 || nw >= 2, "a parked response drained behind the oldest");
        vcover!(n < 2 || (k > 0 && code >= 3), "response parked");
        vcover!(failed, "handler failure");
        drop(q);
        std::mem::forget(st);
    })
}
macro_rules! handle_inst {
    ($name:ident, $n:expr) => {
        vharness! {
            //@ props: C04
            //@ tier: quick
            //@ functions: io::DispatcherState::handle_result, io::ServiceResult::take (extracted verbatim from src/io.rs), IoRef::encode (model) with a one-byte test codec
            //@ bounds: ONE handler completion (failure / no response / response with any of 15 tags / unencodable response) at ANY slot of a response queue of a literal number of slots per instance (1..=4); every other slot pending or already parked with any result; slot numbering base: usize full width (wrap-around included)
            //@ assumes: queue invariant of call_service: slot i of the queue answers request base+i; failures are never parked (handle_result records them at once)
            //@ mem: 10  timeout: 900
            //@ desc: response re-sequencing step: a completion at the oldest slot writes its response followed by every response already parked behind it, in request order, up to the first request still running; a completion elsewhere writes nothing and is parked in its own slot; nothing is lost, duplicated or reordered; slot numbering stays in step; failures and encoder refusals reach the dispatcher
            fn $name() unwind(6) {
                handle_step($n)
            }
        }
    };
}
handle_inst!(io_handle_n1, 1);
handle_inst!(io_handle_n2, 2);
handle_inst!(io_handle_n3, 3);
handle_inst!(io_handle_n4, 4);

vharness! {
    //@ twin_replay: yes
    //@ props: C04
    //@ tier: quick
    //@ expect: fail
    //@ desc: reachability twin of io_handle_*: claims a completion at the oldest slot never writes a response
    fn twin_io_handle() unwind(6) {
        vio::with_io(move |io| {
            let st = new_state(vk::any_usize());
            st.queue.borrow_mut().push_back(ServiceResult::Pending);
            let (_, item) = any_res();
            let ioref = io.ioref();
            let _ = st.handle_result(item, st.base.get(), &ioref, &TCodec);
            assert!(io.frames() == 0);
            std::mem::forget(st);
        })
    }
}


// =============================================================================================
// call_service: slot allocation, inline fast path, spawned completions (C04)
use std::task::{Context, Poll};
use std::rc::Rc;

/// handler completions are decided by the harness: request i completes when `done[i]` is filled
struct Gate {
    done: [Cell<Option<Res>>; 3],
}
struct GSvc(Rc<Gate>);
impl Service<u8> for GSvc {
    type Response = Option<u8>;
    type Error = DispatcherError<()>;
    async fn call(&self, req: u8, _ctx: ServiceCtx<'_, Self>) -> Result<Option<u8>, DispatcherError<()>> {
        let g = self.0.clone();
        std::future::poll_fn(move |_cx| match g.done[req as usize].take() {
            Some(r) => Poll::Ready(r),
            None => Poll::Pending,
        })
        .await
    }
    /// the same completion rule for the model PipelineCall (Kani flavour only: the model of the
    /// Service trait has this extra method, the real trait does not)
    #[cfg(kani)]
    fn model_poll(&self, req: &u8) -> Poll<Result<Option<u8>, DispatcherError<()>>> {
        match self.0.done[*req as usize].take() {
            Some(r) => Poll::Ready(r),
            None => Poll::Pending,
        }
    }
}
#[cfg(not(kani))]
struct TCtl;
#[cfg(not(kani))]
impl Service<crate::control::Control<()>> for TCtl {
    type Response = Option<u8>;
    type Error = ();
    async fn call(&self, _req: crate::control::Control<()>, _ctx: ServiceCtx<'_, Self>) -> Result<Option<u8>, ()> {
        Ok(None)
    }
}
#[cfg(kani)]
type Inner = DispatcherInner<GSvc, (), TCodec, ()>;
#[cfg(kani)]
fn mk_inner(io: &vio::IoH, svc: GSvc) -> Inner {
    DispatcherInner {
        io: io.take_boxed(),
        codec: TCodec,
        service: ntex_service::PipelineBinding::model_new(svc),
        state: Rc::new(DispatcherState {
            error: Cell::new(None),
            base: Cell::new(0),
            queue: RefCell::new(VecDeque::new()),
            waker: LocalWaker::new(),
            response: Cell::new(None),
            response_idx: Cell::new(0),
        }),
        stopping: ntex_util::channel::condition::Condition::new(),
        flags: Flags::empty(),
        read_remains: 0,
        read_remains_prev: 0,
        read_max_timeout: ntex_util::time::Seconds::ZERO,
        keepalive_timeout: ntex_util::time::Seconds::ZERO,
        _marker: std::marker::PhantomData,
    }
}
#[cfg(not(kani))]
type Inner = DispatcherInner<GSvc, TCtl, TCodec, ()>;
#[cfg(not(kani))]
fn mk_inner(io: &vio::IoH, svc: GSvc) -> Inner {
    Dispatcher::new(io.take_boxed(), TCodec, svc, TCtl).inner
}
/// the "handle service response future" block at the top of `Dispatcher::poll` (not an item of its
/// own in io.rs, so it cannot be extracted): poll the inline call, hand its result to handle_result
fn poll_inline(inner: &mut Inner, ioref: &vio::IoRef) {
    let mut cx = vio::noop_cx();
    if let Some(mut fut) = inner.state.response.take() {
        if let Poll::Ready(item) = std::pin::Pin::new(&mut fut).poll(&mut cx) {
            inner.state.handle_result(item, inner.state.response_idx.get(), ioref, &inner.codec);
        } else {
            inner.state.response.set(Some(fut));
        }
    }
}

/// ONE `call_service` call from an arbitrary dispatcher state with `n` (literal) response slots
fn call_step(n: usize) {
    let mut ran = false;
    vio::with_io_steps(if vk::REPLAY { 2 } else { 1 }, move |io, step| {
        if step == 1 {
            // the second step only lets the executor run once more; all checks are in step 0
            assert!(ran);
            return;
        }
        ran = true;
        let gate = Rc::new(Gate { done: [const { Cell::new(None) }; 3] });
        let mut inner = mk_inner(io, GSvc(gate.clone()));
        let ioref = io.ioref();
        let base = vk::any_usize();
        inner.state.base.set(base);
        // pre-state: slots pending or parked; optionally the inline call (request 0, still running)
        // owns one of the pending slots
        let mut desc: [Option<u8>; NQ] = [None; NQ];
        let mut i = 0;
        while i < n {
            if vk::any_bool() {
                let (code, r) = any_res();
                vk::assume(code != 0);
                desc[i] = Some(code);
                inner.state.queue.borrow_mut().push_back(ServiceResult::Ready(r));
            } else {
                inner.state.queue.borrow_mut().push_back(ServiceResult::Pending);
            }
            i += 1;
        }
        let inline_busy = n > 0 && vk::any_bool();
        if inline_busy {
            let p = vk::any_len(n - 1);
            vk::assume(desc[p].is_none());
            inner.state.response.set(Some(inner.service.call_nowait(0)));
            inner.state.response_idx.set(base.wrapping_add(p));
        }
        // the new request (number 1): its handler completes before call_service polls it, or later
        let immediate = vk::any_bool();
        let has = vk::any_bool();
        let res: Res = if has { Ok(Some(7)) } else { Ok(None) };
        if immediate {
            gate.done[1].set(Some(res));
        }
        let mut cx = vio::noop_cx();
        inner.call_service(&mut cx, 1);

        // ---- what call_service itself must have done
        let direct = !inline_busy && immediate && n == 0;
        {
            let q = inner.state.queue.borrow();
            if direct {
                // the only response owed: written at once, no slot
                assert!(q.len() == 0);
                assert!(io.frames() == if has { 1 } else { 0 });
                if has {
                    assert!(io.frame_first(0) == 7 << 4);
                }
            } else {
                // every other case takes the NEXT slot, behind all requests that arrived earlier,
                // and writes nothing yet
                assert!(io.frames() == 0, "response written ahead of earlier requests that are still unanswered");
                assert!(q.len() == n + 1, "the request did not take exactly one new slot at the back");
                match q.get(n) {
                    Some(ServiceResult::Ready(Ok(r))) => {
                        assert!(!inline_busy && immediate, "slot filled although the handler has not finished");
                        assert!(*r == if has { Some(7) } else { None });
                    }
                    Some(ServiceResult::Pending) => assert!(inline_busy || !immediate),
                    _ => assert!(false),
                }
            }
            assert!(inner.state.base.get() == base);
            // earlier slots untouched
            let mut j = 0;
            while j < n {
                match desc[j] {
                    None => assert!(matches!(q.get(j), Some(ServiceResult::Pending))),
                    Some(c) => assert!(matches!(q.get(j), Some(ServiceResult::Ready(Ok(r))) if *r == if c >= 2 { Some(c - 2) } else { None })),
                }
                j += 1;
            }
        }
        if !inline_busy && !immediate {
            // became the inline call, owning the new slot
            assert!(inner.state.response_idx.get() == base.wrapping_add(n), "inline call numbered with a slot that is not its own");
        }
        // ---- the handler finishes later: its result must arrive in ITS OWN slot
        if !immediate {
            gate.done[1].set(Some(res_copy(has)));
            if inline_busy {
                // spawned task: runs when the executor polls it
                ntex_util_run();
            } else {
                poll_inline(&mut inner, &ioref);
            }
            let q = inner.state.queue.borrow();
            if n == 0 {
                // it is the oldest: written now, slot released
                assert!(q.len() == 0 && inner.state.base.get() == base.wrapping_add(1));
                assert!(io.frames() == if has { 1 } else { 0 });
            } else {
                assert!(io.frames() == 0);
                assert!(q.len() == n + 1);
                assert!(matches!(q.get(n), Some(ServiceResult::Ready(Ok(r))) if *r == if has { Some(7) } else { None }),
                    "a late completion did not land in its own slot");
                let mut j = 0;
                while j < n {
                    if desc[j].is_none() {
                        assert!(matches!(q.get(j), Some(ServiceResult::Pending)), "a late completion overwrote the slot of another request");
                    }
                    j += 1;
                }
            }
        }
        vcover!(n == 0 || (inline_busy && !immediate), "spawned, completes later");
        vcover!(n == 0 || (!inline_busy && immediate), "immediate behind unanswered requests: parked");
        vcover!(!inline_busy && !immediate, "becomes the inline call");
        std::mem::forget(inner);
    })
}
fn res_copy(has: bool) -> Res {
    if has { Ok(Some(7)) } else { Ok(None) }
}
/// let the executor poll the spawned tasks now (Kani: model task table; replay: nothing to do here -
/// the real runtime polls them between the steps, so the late-completion checks of a spawned call are
/// made by the Kani flavour only)
#[cfg(kani)]
fn ntex_util_run() {
    ntex_util::model_run_spawned();
}
#[cfg(not(kani))]
fn ntex_util_run() {
    crate::vk::assume(false);
}
macro_rules! call_step_inst {
    ($name:ident, $n:expr) => {
        vharness! {
            //@ props: C04
            //@ tier: quick
            //@ functions: io::DispatcherInner::call_service and io::DispatcherState::handle_result (both extracted verbatim from src/io.rs), the inline-response block of Dispatcher::poll (re-stated in the harness); ntex-service PipelineBinding::call_nowait, ntex_util spawn / select / Condition (models)
            //@ bounds: ONE call_service call from an ARBITRARY dispatcher state: literal number of response slots per instance (0..=2), each pending or parked with any result; slot numbering base usize full width; the inline call busy (owning any pending slot) or free; the new handler completing immediately or later, with or without a response
            //@ assumes: queue invariant (slot i answers request base+i; the inline call owns a pending slot); handlers do not fail here (failures: io_handle_*)
            //@ mem: 24  timeout: 1500
            //@ desc: slot allocation step: a response is written directly only when nothing older is owed; otherwise the request takes exactly one new slot BEHIND every earlier request (parked at once if its handler already finished), earlier slots are untouched, and a handler finishing later - through the spawned task or the inline poll - delivers into its own slot. Together with io_handle_* (delivery from any slot) this is the induction step of "responses leave in request order" for histories of any length.
            fn $name() unwind(6) {
                call_step($n)
            }
        }
    };
}
call_step_inst!(io_call_step_n0, 0);
call_step_inst!(io_call_step_n1, 1);
call_step_inst!(io_call_step_n2, 2);
//@ tier: thorough
//@ mem: 30  timeout: 2400
call_step_inst!(io_call_step_n3, 3);


// =============================================================================================
// keep-alive and frame-read-rate timers (C20): update_timer / handle_timeout, time as a symbolic input
use ntex_io::Decoded;
use ntex_util::time::Seconds;

fn dec_none(remains: usize) -> Decoded<u8> {
    Decoded { item: None, remains, consumed: 0 }
}
fn dec_item(remains: usize) -> Decoded<u8> {
    Decoded { item: Some(1), remains, consumed: 2 }
}
fn timer_inner(io: &vio::IoH, keepalive: u16) -> Inner {
    let gate = Rc::new(Gate { done: [const { Cell::new(None) }; 3] });
    let mut inner = mk_inner(io, GSvc(gate));
    inner.keepalive_timeout = Seconds(keepalive);
    inner.flags = if keepalive == 0 { Flags::empty() } else { Flags::KA_ENABLED };
    inner
}

vharness! {
    //@ props: C20
    //@ tier: quick
    //@ functions: io::DispatcherInner::{update_timer, handle_timeout} and the `Flags` bitflags (extracted verbatim from src/io.rs); ntex-io timer / config API (model)
    //@ bounds: ARBITRARY timer state (both timer flags, byte counters u32 full width, remaining budget u16 full width), keep-alive any u16, frame read rate configured (any timeout / max_timeout / rate) or not; then ONE complete frame, then a timer expiry
    //@ assumes: none
    //@ mem: 10  timeout: 900
    //@ desc: live peers are not timed out: whatever timers were armed, the arrival of a complete packet disarms both (flags cleared, partial-frame counter reset); a timer firing after that ends nothing
    fn io_timer_frame_resets() unwind(4) {
        let rate = if vk::any_bool() { Some((vk::any_u16(), vk::any_u16(), vk::any_u32())) } else { None };
        vio::with_io_cfg(rate, move |io| {
            let mut inner = timer_inner(io, vk::any_u16());
            if vk::any_bool() { inner.flags.insert(Flags::KA_TIMEOUT); }
            if vk::any_bool() { inner.flags.insert(Flags::READ_TIMEOUT); }
            inner.read_remains = vk::any_u32();
            inner.read_remains_prev = vk::any_u32();
            inner.read_max_timeout = Seconds(vk::any_u16());
            inner.update_timer(&dec_item(vk::any_usize()));
            assert!(!inner.flags.contains(Flags::KA_TIMEOUT) && !inner.flags.contains(Flags::READ_TIMEOUT));
            assert!(inner.read_remains == 0);
            assert!(inner.handle_timeout().is_ok(), "a connection that just delivered a complete packet was timed out");
            std::mem::forget(inner);
        })
    }
}

vharness! {
    //@ props: C20
    //@ tier: quick
    //@ functions: io::DispatcherInner::{update_timer, handle_timeout} (extracted verbatim)
    //@ bounds: no timer armed, nothing buffered; keep-alive any u16 (0 = disabled); frame read rate configured or not; the read returns no data; then the timer fires
    //@ assumes: none
    //@ mem: 10  timeout: 900
    //@ desc: an idle connection arms the keep-alive timer with the negotiated period (once), and its expiry ends the connection with the keep-alive reason; with keep-alive disabled nothing is armed and nothing ends
    fn io_timer_keepalive() unwind(4) {
        let rate = if vk::any_bool() { Some((vk::any_u16(), vk::any_u16(), vk::any_u32())) } else { None };
        vio::with_io_cfg(rate, move |io| {
            let ka = vk::any_u16();
            let mut inner = timer_inner(io, ka);
            inner.update_timer(&dec_none(0));
            if ka != 0 {
                assert!(inner.flags.contains(Flags::KA_TIMEOUT));
                if !vk::REPLAY {
                    assert!(io.timer_starts() == 1 && io.timer_last() == ka, "keep-alive timer not armed with the negotiated period");
                }
                // a second idle poll does not re-arm (the period must not restart)
                inner.update_timer(&dec_none(0));
                if !vk::REPLAY {
                    assert!(io.timer_starts() == 1);
                }
                assert!(matches!(inner.handle_timeout(), Err(ProtocolError::KeepAliveTimeout)), "idle connection not ended with the keep-alive reason");
            } else {
                assert!(!inner.flags.contains(Flags::KA_TIMEOUT));
                assert!(inner.handle_timeout().is_ok());
            }
            std::mem::forget(inner);
        })
    }
}

vharness! {
    //@ props: C20
    //@ tier: quick
    //@ functions: io::DispatcherInner::{update_timer, handle_timeout} (extracted verbatim)
    //@ bounds: frame read rate configured: timeout 1..=u16, max_timeout any u16 (0 = no overall limit), rate any u32; a partial frame of r0 > 0 bytes arms the read timer; then THREE timer periods, in each the peer delivers more bytes (buffer grows to any larger size) or nothing; byte counts u32 full width
    //@ assumes: the buffer of a partial frame only grows (bytes are consumed only when a frame completes)
    //@ mem: 12  timeout: 900
    //@ desc: slow-frame detection with time and traffic symbolic: at each expiry the frame timer is extended iff more than `rate` bytes arrived during the period just ended and the overall budget is not used up, else the connection ends with the read-timeout reason; a period without any new byte always ends it; nothing overflows
    fn io_timer_read_rate() unwind(5) {
        let t = vk::any_u16();
        vk::assume(t >= 1);
        let maxt = vk::any_u16();
        let rate = vk::any_u32();
        vio::with_io_cfg(Some((t, maxt, rate)), move |io| {
            let mut inner = timer_inner(io, vk::any_u16());
            let r0 = vk::any_u32();
            vk::assume(r0 > 0);
            inner.update_timer(&dec_none(r0 as usize));
            assert!(inner.flags.contains(Flags::READ_TIMEOUT), "partial frame did not arm the frame read timer");
            if !vk::REPLAY {
                assert!(io.timer_starts() == 1 && io.timer_last() == t);
            }
            // oracle state: bytes buffered at the last check, budget left
            let mut seen: u64 = 0;
            let mut cur: u64 = r0 as u64;
            let mut budget: u32 = maxt as u32;
            let mut period = 0;
            let mut alive = true;
            while period < 3 && alive {
                if vk::any_bool() {
                    let more = vk::any_u32();
                    vk::assume(more as u64 >= cur);
                    cur = more as u64;
                    inner.update_timer(&dec_none(more as usize));
                }
                let res = inner.handle_timeout();
                let got = cur - seen;
                let mut extend = got > rate as u64;
                if extend && maxt != 0 {
                    budget = budget.saturating_sub(t as u32);
                    if budget == 0 {
                        extend = false;
                    }
                }
                if extend {
                    assert!(res.is_ok(), "peer kept the configured read rate but was timed out");
                    seen = cur;
                } else {
                    assert!(matches!(res, Err(ProtocolError::ReadTimeout)), "peer slower than the configured read rate was not ended with a read timeout");
                    alive = false;
                }
                period += 1;
            }
            vcover!(alive && period == 3, "extended three times");
            vcover!(!alive && period == 3, "extended twice, then timed out");
            vcover!(!alive && period == 2, "extended once, then timed out");
            std::mem::forget(inner);
        })
    }
}

vharness! {
    //@ twin_replay: yes
    //@ props: C20
    //@ tier: quick
    //@ expect: fail
    //@ desc: reachability twin of the timer harnesses (claims an idle connection with keep-alive is never ended)
    fn twin_io_timer() unwind(4) {
        vio::with_io_cfg(None, move |io| {
            let ka = vk::any_u16();
            vk::assume(ka != 0);
            let mut inner = timer_inner(io, ka);
            inner.update_timer(&dec_none(0));
            assert!(inner.handle_timeout().is_ok());
            std::mem::forget(inner);
        })
    }
}
