//! Harnesses mounted inside `error` (C15, the cause -> DISCONNECT reason mapping only).
use super::*;
use crate::v5::codec::{Disconnect, DisconnectReasonCode};
use crate::vk;

fn any_decode_error() -> DecodeError {
    let k = vk::any_u8();
    vk::assume(k < 12);
    match k {
        0 => DecodeError::InvalidProtocol,
        1 => DecodeError::InvalidLength,
        2 => DecodeError::MalformedPacket,
        3 => DecodeError::UnsupportedProtocolLevel,
        4 => DecodeError::ConnectReservedFlagSet,
        5 => DecodeError::ConnAckReservedFlagSet,
        6 => DecodeError::InvalidClientId,
        7 => DecodeError::UnsupportedPacketType,
        8 => DecodeError::PacketIdRequired,
        9 => DecodeError::MaxSizeExceeded { size: vk::any_u32(), max_size: vk::any_u32() },
        10 => DecodeError::Utf8Error,
        _ => DecodeError::UnexpectedPayload,
    }
}
fn any_encode_error() -> EncodeError {
    let k = vk::any_u8();
    vk::assume(k < 9);
    match k {
        0 => EncodeError::OverMaxPacketSize,
        1 => EncodeError::OverPublishSize,
        2 => EncodeError::PublishIncomplete,
        3 => EncodeError::InvalidLength,
        4 => EncodeError::MalformedPacket,
        5 => EncodeError::PacketIdRequired,
        6 => EncodeError::UnexpectedPayload,
        7 => EncodeError::ExpectPayload,
        _ => EncodeError::UnsupportedVersion,
    }
}
/// every SpecViolation with the reason code MQTT 5 assigns to that cause (3.14.2.1 / 4.13):
/// receive maximum exceeded 0x93, QoS not supported 0x9B, retain not supported 0x9A,
/// subscription identifiers not supported 0xA1; everything else is a protocol error 0x82
fn any_spec_violation() -> (SpecViolation, u8) {
    let k = vk::any_u8();
    vk::assume(k < 14);
    match k {
        0 => (SpecViolation::PacketId_2_2_1_3_Pub, 0x82),
        1 => (SpecViolation::PacketId_2_2_1_3_Sub, 0x82),
        2 => (SpecViolation::PacketId_2_2_1_3_Unsub, 0x82),
        3 => (SpecViolation::Connect_3_1_2_26, 0x82),
        4 => (SpecViolation::Connack_3_2_2_11, 0x9B),
        5 => (SpecViolation::Connack_3_2_2_14, 0x9A),
        6 => (SpecViolation::Connack_3_2_2_17, 0x82),
        7 => (SpecViolation::Connack_3_2_2_3_12, 0xA1),
        8 => (SpecViolation::Pub_3_3_2_2, 0x82),
        9 => (SpecViolation::Pub_3_3_4_7, 0x93),
        10 => (SpecViolation::Pub_3_3_4_9, 0x93),
        11 => (SpecViolation::Subs_4_7_1, 0x82),
        12 => (SpecViolation::Disconnect_3_14_2_21, 0x82),
        _ => (SpecViolation::Disconnect_3_14_2_22, 0x82),
    }
}

fn defaults_ok(d: &Disconnect) -> bool {
    d.session_expiry_interval_secs.is_none()
        && d.server_reference.is_none()
        && d.reason_string.is_none()
        && d.user_properties.is_empty()
}

vharness! {
    //@ props: C15
    //@ tier: quick
    //@ functions: v5::codec::Disconnect::from_proto_error, ProtocolViolationError::reason, SpecViolation::reason, From<DisconnectReasonCode> for u8 (prim_enum transmute)
    //@ bounds: every ProtocolError value: all 12 DecodeError variants (MaxSizeExceeded fields full width), all 9 EncodeError variants, KeepAliveTimeout, ReadTimeout, all 14 SpecViolation variants, UnexpectedPacket with any packet type
    //@ desc: an error-caused DISCONNECT never says normal disconnection (0x00) nor disconnect-with-will (0x04); dedicated causes carry exactly their MQTT 5 code (keep-alive 0x8D, packet too large 0x95, receive maximum 0x93, QoS 0x9B, retain 0x9A, subscription identifiers 0xA1); all other fields are default
    fn dc_reason_total() unwind(3) {
        let k = vk::any_u8();
        vk::assume(k < 6);
        let (err, want): (ProtocolError, Option<u8>) = match k {
            0 => {
                let e = any_decode_error();
                let want = match e {
                    DecodeError::MaxSizeExceeded { .. } => Some(0x95), // Packet too large
                    _ => None,
                };
                (ProtocolError::Decode(e), want)
            }
            1 => (ProtocolError::Encode(any_encode_error()), None),
            2 => (ProtocolError::KeepAliveTimeout, Some(0x8D)),
            3 => (ProtocolError::ReadTimeout, None),
            4 => {
                let (sv, code) = any_spec_violation();
                (ProtocolError::spec(sv), Some(code))
            }
            _ => (ProtocolError::unexpected_packet(vk::any_u8(), "unexpected"), Some(0x82)),
        };
        let d = Disconnect::from_proto_error(&err);
        let wire: u8 = d.reason_code.into();
        assert!(wire != 0x00, "error-caused DISCONNECT claims normal disconnection");
        assert!(wire != 0x04);
        assert!(wire >= 0x80, "error-caused DISCONNECT must carry an error code");
        if let Some(w) = want {
            assert!(wire == w);
        }
        assert!(defaults_ok(&d));
        vcover!(wire == 0x95, "packet too large");
        vcover!(wire == 0x8D, "keep alive timeout");
        vcover!(wire == 0x93, "receive maximum exceeded");
        vcover!(wire == 0xA1, "subscription identifiers not supported");
        vcover!(wire == 0x83, "implementation specific");
    }
}

vharness! {
    //@ props: C15
    //@ tier: quick
    //@ functions: ProtocolError::violation, generic_violation, packet_id_mismatch, Disconnect::from_proto_error, ProtocolViolationError::{reason, message}
    //@ bounds: the library's own constructors of free-form violations: violation(TopicAliasInvalid, ..) (the only reason passed at its two call sites), generic_violation, packet_id_mismatch; plus violation(r, ..) for every error reason code r
    //@ assumes: ProtocolError::violation is only called with error codes (>= 0x80); its two call sites (v5 dispatchers) pass TopicAliasInvalid
    //@ desc: unknown topic alias maps to 0x94; generic violations map to 0x82; a violation constructed with reason r yields exactly r
    fn dc_reason_dedicated() unwind(3) {
        let d = Disconnect::from_proto_error(&ProtocolError::violation(DisconnectReasonCode::TopicAliasInvalid, "alias"));
        assert!(u8::from(d.reason_code) == 0x94 && defaults_ok(&d));
        let d = Disconnect::from_proto_error(&ProtocolError::generic_violation("x"));
        assert!(u8::from(d.reason_code) == 0x82 && defaults_ok(&d));
        let d = Disconnect::from_proto_error(&ProtocolError::packet_id_mismatch());
        assert!(u8::from(d.reason_code) == 0x82);
        let raw = vk::any_u8();
        if let Ok(r) = DisconnectReasonCode::try_from(raw) {
            vk::assume(raw >= 0x80);
            let e = ProtocolError::violation(r, "m");
            let d = Disconnect::from_proto_error(&e);
            assert!(u8::from(d.reason_code) == raw);
            if let ProtocolError::ProtocolViolation(pv) = e {
                assert!(pv.reason() == r);
            }
            vcover!(raw == 0xA2, "last reason code");
        }
    }
}

vharness! {
    //@ twin_replay: yes
    //@ props: C15
    //@ tier: quick
    //@ expect: fail
    //@ desc: reachability twin of dc_reason_total (claims the mapping never yields 0x83)
    fn twin_dc_reason() unwind(3) {
        let d = Disconnect::from_proto_error(&ProtocolError::Encode(any_encode_error()));
        assert!(u8::from(d.reason_code) != 0x83);
    }
}
