//! Harnesses mounted inside `topic` (C18). Oracle: a direct transcription of MQTT 4.7.1-4.7.3 on
//! byte slices, written from the specification text; it shares no code with topic.rs.
use super::*;
use crate::vk;
use ntex_bytes::{ByteString, Bytes};

// ---- oracle (MQTT section 4.7) ----------------------------------------------------------------

/// bounds of level `k` (0-based) of `s` split at '/', or None if there are fewer levels
fn spec_level(s: &[u8], k: usize) -> Option<(usize, usize)> {
    let mut start = 0;
    let mut lvl = 0;
    let mut i = 0;
    while i <= s.len() {
        if i == s.len() || s[i] == b'/' {
            if lvl == k {
                return Some((start, i));
            }
            lvl += 1;
            start = i + 1;
        }
        i += 1;
    }
    None
}

fn spec_level_count(s: &[u8]) -> usize {
    let mut n = 1;
    let mut i = 0;
    while i < s.len() {
        if s[i] == b'/' {
            n += 1;
        }
        i += 1;
    }
    n
}

/// 4.7.1: '#' must be the last character and either alone or right after '/';
/// '+' must occupy an entire level; a filter is at least one character long (4.7.3).
pub(crate) fn spec_valid_filter(s: &[u8]) -> bool {
    if s.is_empty() {
        return false;
    }
    let mut i = 0;
    while i < s.len() {
        let c = s[i];
        if c == b'#' {
            if i != s.len() - 1 {
                return false;
            }
            if i > 0 && s[i - 1] != b'/' {
                return false;
            }
        }
        if c == b'+' {
            if i > 0 && s[i - 1] != b'/' {
                return false;
            }
            if i + 1 < s.len() && s[i + 1] != b'/' {
                return false;
            }
        }
        i += 1;
    }
    true
}

/// 4.7.1/4.7.3: topic names contain no wildcard characters and are at least one character long
pub(crate) fn spec_valid_topic(s: &[u8]) -> bool {
    if s.is_empty() {
        return false;
    }
    let mut i = 0;
    while i < s.len() {
        if s[i] == b'#' || s[i] == b'+' {
            return false;
        }
        i += 1;
    }
    true
}

fn lvl_eq(a: &[u8], ab: (usize, usize), b: &[u8], bb: (usize, usize)) -> bool {
    if ab.1 - ab.0 != bb.1 - bb.0 {
        return false;
    }
    let mut i = 0;
    while i < ab.1 - ab.0 {
        if a[ab.0 + i] != b[bb.0 + i] {
            return false;
        }
        i += 1;
    }
    true
}

/// 4.7.1.2 ('#' matches the parent and any number of child levels), 4.7.1.3 ('+' matches exactly
/// one level, also an empty one), 4.7.2 (a filter starting with a wildcard does not match a topic
/// starting with '$'), 4.7.3 (levels compare byte for byte, empty levels are levels).
pub(crate) fn spec_match(f: &[u8], t: &[u8]) -> bool {
    if t[0] == b'$' && (f[0] == b'#' || f[0] == b'+') {
        return false;
    }
    let nf = spec_level_count(f);
    let nt = spec_level_count(t);
    let mut i = 0;
    loop {
        if i == nf {
            return i == nt;
        }
        let fl = spec_level(f, i).unwrap();
        if fl.1 - fl.0 == 1 && f[fl.0] == b'#' {
            return true;
        }
        if i == nt {
            return false;
        }
        let tl = spec_level(t, i).unwrap();
        let plus = fl.1 - fl.0 == 1 && f[fl.0] == b'+';
        if !plus && !lvl_eq(f, fl, t, tl) {
            return false;
        }
        i += 1;
    }
}

// ---- inputs ---------------------------------------------------------------------------------

/// symbolic ASCII string (every byte 1..=127, i.e. a superset of the property's alphabet
/// {a,b,$,/,+,#}; NUL and non-ASCII are stated gaps) of symbolic length <= N
fn any_ascii<const N: usize>() -> ([u8; N], usize) {
    let d: [u8; N] = vk::any_bytes::<N>();
    let len = vk::any_len(N);
    let mut i = 0;
    while i < N {
        vk::assume(d[i] >= 1 && d[i] <= 127);
        i += 1;
    }
    (d, len)
}

fn bstr<const N: usize>(d: [u8; N], len: usize) -> ByteString {
    match ByteString::try_from(vk::bytes_of(d, len)) {
        Ok(s) => s,
        Err(_) => unreachable!(),
    }
}

// ---- std stubs (environment models, -Z stubbing) -----------------------------------------------
// CBMC's symbolic execution of core::str's Pattern/Searcher machinery (CharSearcher over memchr,
// MultiCharEqSearcher over Chars/next_code_point) spends hours in pointer value-set
// simplification even for 4-byte strings (DESIGN.md section 2). The three std entry points that
// topic.rs uses are replaced by byte loops with the documented semantics for the only argument
// values topic.rs passes: contains(['+','#']), starts_with('$'), and memchr (under split('/')).
#[cfg(kani)]
pub(crate) fn stub_str_contains<P>(s: &str, _p: P) -> bool {
    // only instantiation in topic.rs: P = [char; 2] = ['+', '#']
    let b = s.as_bytes();
    let mut i = 0;
    while i < b.len() {
        if b[i] == b'+' || b[i] == b'#' {
            return true;
        }
        i += 1;
    }
    false
}
#[cfg(kani)]
pub(crate) fn stub_str_starts_with<P>(s: &str, _p: P) -> bool {
    // only instantiation in topic.rs: P = char = '$'
    let b = s.as_bytes();
    !b.is_empty() && b[0] == b'$'
}
#[cfg(kani)]
pub(crate) fn stub_memchr(x: u8, text: &[u8]) -> Option<usize> {
    let mut i = 0;
    while i < text.len() {
        if text[i] == x {
            return Some(i);
        }
        i += 1;
    }
    None
}

// ---- harnesses ------------------------------------------------------------------------------

macro_rules! tp_valid_agree {
    ($name:ident, $n:expr, $uw:expr) => {
        vharness! {
            #[kani::stub(str::contains, stub_str_contains)]
            #[kani::stub(str::starts_with, stub_str_starts_with)]
            #[kani::stub(core::slice::memchr::memchr, stub_memchr)]
            fn $name() unwind($uw) {
                let (d, len) = any_ascii::<$n>();
                let s = bstr(d, len);
                let want = spec_valid_filter(&d[..len]);
                let got1 = is_valid(s.as_str());
                assert!(got1 == want);
                let got2 = TopicFilter::try_from(s).is_ok();
                assert!(got2 == want);
                vcover!(want, "valid filter");
                vcover!(!want && len > 0, "invalid non-empty filter");
                vcover!(want && len == $n && d[len - 1] == b'#', "valid filter ending in #");
            }
        }
    };
}
//@ props: C18
//@ tier: thorough
//@ stubs: yes
//@ unwindset: memcmp=3 CharSearcher=2
//@ mem: 16  timeout: 2400
//@ functions: topic::is_valid, TryFrom<ByteString> for TopicFilter, TopicFilter::is_valid, TopicFilterLevel::is_valid, is_system, recover_bstr
//@ bounds: all ASCII (1..=127) strings of length 0..=4
//@ assumes: bytes in 1..=127
//@ desc: both validators agree with the section 4.7.1 oracle (and hence with each other) on every string
tp_valid_agree!(tp_valid_agree_4, 4, 7);
//@ props: C18
//@ tier: quick
//@ stubs: yes
//@ unwindset: memcmp=3 CharSearcher=2
//@ functions: topic::is_valid, TryFrom<ByteString> for TopicFilter, TopicFilter::is_valid
//@ bounds: all ASCII (1..=127) strings of length 0..=3
//@ assumes: bytes in 1..=127
//@ mem: 12  timeout: 1500
//@ desc: both validators (byte state machine, parser) agree with the section 4.7.1 oracle and hence with each other on every string of length <= 3
tp_valid_agree!(tp_valid_agree_3, 3, 6);


vharness! {
    //@ twin_replay: yes
    //@ props: C18
    //@ tier: quick
    //@ stubs: yes
    //@ unwindset: memcmp=3 CharSearcher=2
    //@ expect: fail
    //@ desc: reachability twin of tp_valid_agree (claims every string is an invalid filter)
    #[kani::stub(str::contains, stub_str_contains)]
    #[kani::stub(str::starts_with, stub_str_starts_with)]
    #[kani::stub(core::slice::memchr::memchr, stub_memchr)]
    fn twin_tp_valid_agree() unwind(6) {
        let (d, len) = any_ascii::<3>();
        let s = bstr(d, len);
        assert!(!is_valid(s.as_str()));
    }
}

// ---- level-list inputs ----------------------------------------------------------------------------
// Matching, covering and display are decided on filters given as LEVEL LISTS (the crate's own
// representation, built through the public TryFrom<Vec<TopicFilterLevel>>), with the filter TEXT
// for the oracle produced by the harness' own concatenation. Parsing text into levels is decided
// separately by tp_parse_* (string inputs); going through the std `split`/`collect` machinery for
// every filter made each matching query 10x larger without adding coverage.

#[cfg(kani)]
use crate::mvec8::Vec;

pub(crate) struct FText {
    pub d: [u8; 12],
    pub n: usize,
}

/// symbolic level list of 1..=NL levels, each literal level 1..=S ASCII bytes (no '/', '+', '#');
/// returns the levels and the text they denote
fn any_levels<const NL: usize, const S: usize>() -> (Vec<TopicFilterLevel>, FText) {
    let nl = vk::any_len(NL);
    vk::assume(nl >= 1);
    let mut v = Vec::new();
    let mut t = FText { d: [0; 12], n: 0 };
    let mut i = 0;
    while i < nl {
        if i > 0 {
            t.d[t.n] = b'/';
            t.n += 1;
        }
        let k = vk::any_u8();
        vk::assume(k < 5);
        match k {
            0 | 1 => {
                let d: [u8; S] = vk::any_bytes::<S>();
                let len = vk::any_len(S);
                vk::assume(len >= 1);
                let mut j = 0;
                while j < S {
                    vk::assume(d[j] >= 1 && d[j] <= 127 && d[j] != b'/' && d[j] != b'+' && d[j] != b'#');
                    j += 1;
                }
                // the parser classifies a first level starting with '$' as System, anything else as Normal
                let sys = i == 0 && d[0] == b'$';
                vk::assume((k == 1) == sys);
                let mut j = 0;
                while j < len {
                    t.d[t.n] = d[j];
                    t.n += 1;
                    j += 1;
                }
                let s = bstr(d, len);
                v.push(if sys { TopicFilterLevel::System(s) } else { TopicFilterLevel::Normal(s) });
            }
            2 => v.push(TopicFilterLevel::Blank),
            3 => {
                t.d[t.n] = b'+';
                t.n += 1;
                v.push(TopicFilterLevel::SingleWildcard);
            }
            _ => {
                t.d[t.n] = b'#';
                t.n += 1;
                v.push(TopicFilterLevel::MultiWildcard);
            }
        }
        i += 1;
    }
    // the property quantifies over filter STRINGS: the one level list that denotes the empty
    // string, [Blank], is outside it (no string parses to it)
    vk::assume(t.n >= 1);
    (v, t)
}

macro_rules! tp_match {
    ($name:ident, $nl:expr, $s:expr, $nt:expr, $uw:expr) => {
        vharness! {
            #[kani::stub(str::contains, stub_str_contains)]
            #[kani::stub(str::starts_with, stub_str_starts_with)]
            #[kani::stub(core::slice::memchr::memchr, stub_memchr)]
            fn $name() unwind($uw) {
                let (lv, ft) = any_levels::<$nl, $s>();
                let (td, tl) = any_ascii::<$nt>();
                vk::assume(spec_valid_topic(&td[..tl]));
                let want_valid = spec_valid_filter(&ft.d[..ft.n]);
                let f = match TopicFilter::try_from(lv) {
                    Ok(f) => { assert!(want_valid); f }
                    Err(_) => { assert!(!want_valid); return; }
                };
                let t = bstr(td, tl);
                let got = f.matches_topic(t.as_str());
                let want = spec_match(&ft.d[..ft.n], &td[..tl]);
                assert!(got == want);
                vcover!(want, "match");
                vcover!(!want, "no match");
                vcover!(want && ft.d[ft.n - 1] == b'#' && spec_level_count(&td[..tl]) < spec_level_count(&ft.d[..ft.n]), "multi-level wildcard matches parent");
                vcover!(!want && td[0] == b'$' && ft.d[0] == b'+', "dollar topic refused by leading +");
                vcover!(!want && td[0] == b'$' && ft.d[0] == b'#', "dollar topic refused by leading #");
                vcover!(want && td[0] == b'$', "dollar topic matched by literal first level");
            }
        }
    };
}
//@ props: C18
//@ tier: quick
//@ stubs: yes
//@ unwindset: memcmp=3 CharSearcher=2
//@ functions: TryFrom<Vec<TopicFilterLevel>> for TopicFilter, TopicFilter::is_valid, TopicFilter::matches_topic, match_topic, MatchLevel for AsRef<str>, is_system
//@ bounds: all filters of 1..=3 levels (each: literal of 1..=2 ASCII bytes incl. '$', empty, '+', '#' in ANY position) x all wildcard-free ASCII topics of 1..=4 bytes
//@ assumes: bytes in 1..=127; literal levels contain no '/', '+', '#'; a literal first level starting with '$' is a System level (what the parser produces, see tp_parse_*)
//@ mem: 10  timeout: 1200
//@ desc: level-list validation agrees with the section 4.7.1 oracle ('#' only last), and matches_topic == section 4.7 oracle (parent match of '#', '+' on empty levels, '$' rule) for every (filter, topic) pair
tp_match!(tp_match_3_4, 3, 2, 4, 10);
//@ props: C18
//@ tier: thorough
//@ stubs: yes
//@ unwindset: memcmp=3 CharSearcher=2
//@ functions: TopicFilter::matches_topic, match_topic, MatchLevel for AsRef<str>
//@ bounds: filters of 1..=4 levels (literals 1..=2 bytes) x topics of 1..=6 bytes
//@ assumes: as tp_match_3_4
//@ mem: 16  timeout: 3000
//@ desc: as tp_match_3_4, deeper
tp_match!(tp_match_4_6, 4, 2, 6, 13);

vharness! {
    //@ props: C18
    //@ tier: quick
    //@ stubs: yes
    //@ unwindset: memcmp=3 CharSearcher=2
    //@ expect: fail
    //@ desc: reachability twin of tp_match (claims nothing ever matches)
    #[kani::stub(str::contains, stub_str_contains)]
    #[kani::stub(str::starts_with, stub_str_starts_with)]
    #[kani::stub(core::slice::memchr::memchr, stub_memchr)]
    fn twin_tp_match() unwind(6) {
        let (lv, _ft) = any_levels::<2, 1>();
        let (td, tl) = any_ascii::<3>();
        vk::assume(spec_valid_topic(&td[..tl]));
        if let Ok(f) = TopicFilter::try_from(lv) {
            let t = bstr(td, tl);
            assert!(!f.matches_topic(t.as_str()));
        }
    }
}

macro_rules! tp_cover_sound {
    ($name:ident, $nl:expr, $nt:expr, $uw:expr) => {
        vharness! {
            #[kani::stub(str::contains, stub_str_contains)]
            #[kani::stub(str::starts_with, stub_str_starts_with)]
            #[kani::stub(core::slice::memchr::memchr, stub_memchr)]
            fn $name() unwind($uw) {
                let (flv, ft) = any_levels::<$nl, 1>();
                let (glv, gt) = any_levels::<$nl, 1>();
                let (td, tl) = any_ascii::<$nt>();
                vk::assume(spec_valid_filter(&ft.d[..ft.n]));
                vk::assume(spec_valid_filter(&gt.d[..gt.n]));
                vk::assume(spec_valid_topic(&td[..tl]));
                let f = match TopicFilter::try_from(flv) { Ok(f) => f, Err(_) => { assert!(false); return; } };
                let g = match TopicFilter::try_from(glv) { Ok(g) => g, Err(_) => { assert!(false); return; } };
                let covers = f.matches_filter(&g);
                let g_matches = spec_match(&gt.d[..gt.n], &td[..tl]);
                let f_matches = spec_match(&ft.d[..ft.n], &td[..tl]);
                // soundness of the covering relation w.r.t. section 4.7 matching
                assert!(!(covers && g_matches) || f_matches, "covering filter misses a topic of the covered filter");
                vcover!(covers && g_matches, "covering pair with a witness topic");
                vcover!(!covers, "non-covering pair");
                vcover!(covers && gt.d[0] == b'$', "covering a filter whose first level starts with $");
                vcover!(covers && ft.d[ft.n - 1] == b'#' && gt.n < ft.n, "covering by parent match of #");
            }
        }
    };
}
//@ props: C18
//@ tier: quick
//@ stubs: yes
//@ unwindset: memcmp=3 CharSearcher=2
//@ functions: TopicFilter::matches_filter, match_topic, match_level_impl, MatchLevel for TopicFilterLevel, TryFrom<Vec<TopicFilterLevel>>
//@ bounds: all triples (covering filter, covered filter, topic): filters of 1..=3 levels (literal levels one ASCII byte incl. '$'), topics 1..=5 ASCII bytes
//@ assumes: bytes in 1..=127; both filters valid, topic valid (section 4.7.1 oracle)
//@ mem: 10  timeout: 1200
//@ desc: f.matches_filter(g) and g matches t (oracle) implies f matches t (oracle): the covering relation is sound, incl. the rule that a leading wildcard does not cover '$' topics
tp_cover_sound!(tp_cover_sound_3, 3, 5, 8);

macro_rules! tp_display_rt {
    ($name:ident, $nl:expr, $s:expr, $uw:expr) => {
        vharness! {
            fn $name() unwind($uw) {
                let (lv, ft) = any_levels::<$nl, $s>();
                vk::assume(spec_valid_filter(&ft.d[..ft.n]));
                let f = match TopicFilter::try_from(lv) { Ok(f) => f, Err(_) => { assert!(false); return; } };
                // write_topic reproduces the text
                let mut out = [0u8; 16];
                let n = {
                    let mut w: &mut [u8] = &mut out[..];
                    match w.write_topic(&f) { Ok(n) => n, Err(_) => { assert!(false); return; } }
                };
                assert!(n == ft.n);
                let mut i = 0;
                while i < ft.n {
                    assert!(out[i] == ft.d[i]);
                    i += 1;
                }
                vcover!(f.levels().len() == $nl, "maximum number of levels");
            }
        }
    };
}
macro_rules! tp_display_fmt {
    ($name:ident, $nl:expr, $s:expr, $uw:expr) => {
        vharness! {
            fn $name() unwind($uw) {
                let (lv, ft) = any_levels::<$nl, $s>();
                vk::assume(spec_valid_filter(&ft.d[..ft.n]));
                let f = match TopicFilter::try_from(lv) { Ok(f) => f, Err(_) => { assert!(false); return; } };
                // Display reproduces the text
                let mut fb = FixedW { d: [0; 16], n: 0 };
                use std::fmt::Write as _;
                assert!(write!(fb, "{}", f).is_ok());
                assert!(fb.n == ft.n);
                let mut i = 0;
                while i < ft.n {
                    assert!(fb.d[i] == ft.d[i]);
                    i += 1;
                }
                vcover!(f.levels().len() == $nl, "maximum number of levels");
            }
        }
    };
}
struct FixedW {
    d: [u8; 16],
    n: usize,
}
impl std::fmt::Write for FixedW {
    fn write_str(&mut self, s: &str) -> std::fmt::Result {
        let b = s.as_bytes();
        let mut i = 0;
        while i < b.len() {
            if self.n >= 16 {
                return Err(std::fmt::Error);
            }
            self.d[self.n] = b[i];
            self.n += 1;
            i += 1;
        }
        Ok(())
    }
}
//@ props: C18
//@ tier: thorough
//@ functions: WriteTopicExt::{write_topic, write_level} (crate-internal, unused helper), TryFrom<Vec<TopicFilterLevel>>
//@ bounds: all valid filters of 1..=2 levels (literals one ASCII byte)
//@ assumes: bytes in 1..=127; filter valid
//@ mem: 16  timeout: 1800
//@ desc: write_topic serialises a filter to exactly the text its levels denote (io::Write on a byte slice is costly for CBMC: 3 levels ran out of memory at 8 GB)
tp_display_rt!(tp_display_rt_2, 2, 1, 6);
//@ props: C18
//@ tier: quick
//@ functions: fmt::Display for TopicFilter, fmt::Display for TopicFilterLevel (through core::fmt::write)
//@ bounds: all valid filters of 1..=2 levels (literals one ASCII byte)
//@ assumes: bytes in 1..=127; filter valid
//@ mem: 10  timeout: 900
//@ desc: Display formats a filter to exactly the text its levels denote (with tp_parse_*: parse/display round trip)
tp_display_fmt!(tp_display_fmt_2, 2, 1, 6);

macro_rules! tp_parse {
    ($name:ident, $n:expr, $uw:expr) => {
        vharness! {
            #[kani::stub(str::contains, stub_str_contains)]
            #[kani::stub(str::starts_with, stub_str_starts_with)]
            #[kani::stub(core::slice::memchr::memchr, stub_memchr)]
            fn $name() unwind($uw) {
                let (d, len) = any_ascii::<$n>();
                vk::assume(spec_valid_filter(&d[..len]));
                let f = match TopicFilter::try_from(bstr(d, len)) { Ok(f) => f, Err(_) => { assert!(false); return; } };
                let lv = f.levels();
                assert!(lv.len() == spec_level_count(&d[..len]));
                let mut i = 0;
                while i < lv.len() {
                    let (a, b) = spec_level(&d[..len], i).unwrap();
                    let txt = &d[a..b];
                    match &lv[i] {
                        TopicFilterLevel::Blank => assert!(txt.is_empty()),
                        TopicFilterLevel::SingleWildcard => assert!(txt.len() == 1 && txt[0] == b'+'),
                        TopicFilterLevel::MultiWildcard => assert!(txt.len() == 1 && txt[0] == b'#'),
                        TopicFilterLevel::System(s) => {
                            assert!(i == 0 && !txt.is_empty() && txt[0] == b'$');
                            assert!(s.as_bytes() == txt);
                        }
                        TopicFilterLevel::Normal(s) => {
                            assert!(!txt.is_empty() && !(i == 0 && txt[0] == b'$'));
                            assert!(s.as_bytes() == txt);
                        }
                    }
                    i += 1;
                }
                vcover!(lv.len() == 3, "three levels");
                vcover!(matches!(lv[0], TopicFilterLevel::System(_)), "system first level");
            }
        }
    };
}
//@ props: C18
//@ tier: quick
//@ stubs: yes
//@ unwindset: memcmp=3 CharSearcher=2
//@ functions: TryFrom<ByteString> for TopicFilter, recover_bstr, is_system, TopicFilter::levels
//@ bounds: all valid ASCII filters of length 1..=3
//@ assumes: bytes in 1..=127; filter valid per oracle
//@ mem: 12  timeout: 1500
//@ desc: parsing text yields exactly the level list the text denotes (kinds and literal bytes, System only for a first level starting with '$'): links the level-list harnesses to filter strings; with tp_display_rt this is the parse/display round trip
tp_parse!(tp_parse_3, 3, 6);
