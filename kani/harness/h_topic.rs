//! Harnesses mounted inside `topic` (C18). Oracle: a direct transcription of MQTT 4.7.1-4.7.3 on
//! byte slices, written from the specification text; it shares no code with topic.rs.
use super::*;
use crate::vk;
use ntex_bytes::{ByteString, Bytes};

// ---- oracle (MQTT section 4.7) ----------------------------------------------------------------

/// bounds of level `k` (0-based) of `s` split at '/', or None if there are fewer levels
fn spec_level(s: &[u8], k: usize) -> Option<(usize, usize)> {
    let mut start = 0;
    let mut lvl = 0;
    let mut i = 0;
    while i <= s.len() {
        if i == s.len() || s[i] == b'/' {
            if lvl == k {
                return Some((start, i));
            }
            lvl += 1;
            start = i + 1;
        }
        i += 1;
    }
    None
}

fn spec_level_count(s: &[u8]) -> usize {
    let mut n = 1;
    let mut i = 0;
    while i < s.len() {
        if s[i] == b'/' {
            n += 1;
        }
        i += 1;
    }
    n
}

/// 4.7.1: '#' must be the last character and either alone or right after '/';
/// '+' must occupy an entire level; a filter is at least one character long (4.7.3).
pub(crate) fn spec_valid_filter(s: &[u8]) -> bool {
    if s.is_empty() {
        return false;
    }
    let mut i = 0;
    while i < s.len() {
        let c = s[i];
        if c == b'#' {
            if i != s.len() - 1 {
                return false;
            }
            if i > 0 && s[i - 1] != b'/' {
                return false;
            }
        }
        if c == b'+' {
            if i > 0 && s[i - 1] != b'/' {
                return false;
            }
            if i + 1 < s.len() && s[i + 1] != b'/' {
                return false;
            }
        }
        i += 1;
    }
    true
}

/// 4.7.1/4.7.3: topic names contain no wildcard characters and are at least one character long
pub(crate) fn spec_valid_topic(s: &[u8]) -> bool {
    if s.is_empty() {
        return false;
    }
    let mut i = 0;
    while i < s.len() {
        if s[i] == b'#' || s[i] == b'+' {
            return false;
        }
        i += 1;
    }
    true
}

fn lvl_eq(a: &[u8], ab: (usize, usize), b: &[u8], bb: (usize, usize)) -> bool {
    if ab.1 - ab.0 != bb.1 - bb.0 {
        return false;
    }
    let mut i = 0;
    while i < ab.1 - ab.0 {
        if a[ab.0 + i] != b[bb.0 + i] {
            return false;
        }
        i += 1;
    }
    true
}

/// 4.7.1.2 ('#' matches the parent and any number of child levels), 4.7.1.3 ('+' matches exactly
/// one level, also an empty one), 4.7.2 (a filter starting with a wildcard does not match a topic
/// starting with '$'), 4.7.3 (levels compare byte for byte, empty levels are levels).
pub(crate) fn spec_match(f: &[u8], t: &[u8]) -> bool {
    if t[0] == b'$' && (f[0] == b'#' || f[0] == b'+') {
        return false;
    }
    let nf = spec_level_count(f);
    let nt = spec_level_count(t);
    let mut i = 0;
    loop {
        if i == nf {
            return i == nt;
        }
        let fl = spec_level(f, i).unwrap();
        if fl.1 - fl.0 == 1 && f[fl.0] == b'#' {
            return true;
        }
        if i == nt {
            return false;
        }
        let tl = spec_level(t, i).unwrap();
        let plus = fl.1 - fl.0 == 1 && f[fl.0] == b'+';
        if !plus && !lvl_eq(f, fl, t, tl) {
            return false;
        }
        i += 1;
    }
}

// ---- inputs ---------------------------------------------------------------------------------

/// symbolic ASCII string (every byte 1..=127, i.e. a superset of the property's alphabet
/// {a,b,$,/,+,#}; NUL and non-ASCII are stated gaps) of symbolic length <= N
fn any_ascii<const N: usize>() -> ([u8; N], usize) {
    let d: [u8; N] = vk::any_bytes::<N>();
    let len = vk::any_len(N);
    let mut i = 0;
    while i < N {
        vk::assume(d[i] >= 1 && d[i] <= 127);
        i += 1;
    }
    (d, len)
}

fn bstr<const N: usize>(d: [u8; N], len: usize) -> ByteString {
    match ByteString::try_from(vk::bytes_of(d, len)) {
        Ok(s) => s,
        Err(_) => unreachable!(),
    }
}

// ---- std stubs (environment models, -Z stubbing) -----------------------------------------------
// CBMC's symbolic execution of core::str's Pattern/Searcher machinery (CharSearcher over memchr,
// MultiCharEqSearcher over Chars/next_code_point) spends hours in pointer value-set
// simplification even for 4-byte strings (DESIGN.md section 2). The three std entry points that
// topic.rs uses are replaced by byte loops with the documented semantics for the only argument
// values topic.rs passes: contains(['+','#']), starts_with('$'), and memchr (under split('/')).
#[cfg(kani)]
pub(crate) fn stub_str_contains<P>(s: &str, _p: P) -> bool {
    // only instantiation in topic.rs: P = [char; 2] = ['+', '#']
    let b = s.as_bytes();
    let mut i = 0;
    while i < b.len() {
        if b[i] == b'+' || b[i] == b'#' {
            return true;
        }
        i += 1;
    }
    false
}
#[cfg(kani)]
pub(crate) fn stub_str_starts_with<P>(s: &str, _p: P) -> bool {
    // only instantiation in topic.rs: P = char = '$'
    let b = s.as_bytes();
    !b.is_empty() && b[0] == b'$'
}
#[cfg(kani)]
pub(crate) fn stub_memchr(x: u8, text: &[u8]) -> Option<usize> {
    let mut i = 0;
    while i < text.len() {
        if text[i] == x {
            return Some(i);
        }
        i += 1;
    }
    None
}

// ---- harnesses ------------------------------------------------------------------------------

macro_rules! tp_valid_agree {
    ($name:ident, $n:expr, $uw:expr) => {
        vharness! {
            #[kani::stub(str::contains, stub_str_contains)]
            #[kani::stub(str::starts_with, stub_str_starts_with)]
            #[kani::stub(core::slice::memchr::memchr, stub_memchr)]
            fn $name() unwind($uw) {
                let (d, len) = any_ascii::<$n>();
                let s = bstr(d, len);
                let want = spec_valid_filter(&d[..len]);
                let got1 = is_valid(s.as_str());
                assert!(got1 == want);
                let got2 = TopicFilter::try_from(s).is_ok();
                assert!(got2 == want);
                vcover!(want, "valid filter");
                vcover!(!want && len > 0, "invalid non-empty filter");
                vcover!(want && len == $n && d[len - 1] == b'#', "valid filter ending in #");
            }
        }
    };
}
//@ props: C18
//@ tier: quick
//@ stubs: yes
//@ unwindset: memcmp=3 CharSearcher=2
//@ functions: topic::is_valid, TryFrom<ByteString> for TopicFilter, TopicFilter::is_valid, TopicFilterLevel::is_valid, is_system, recover_bstr
//@ bounds: all ASCII (1..=127) strings of length 0..=4
//@ assumes: bytes in 1..=127
//@ desc: both validators agree with the section 4.7.1 oracle (and hence with each other) on every string
tp_valid_agree!(tp_valid_agree_4, 4, 7);
//@ props: C18
//@ tier: thorough
//@ stubs: yes
//@ unwindset: memcmp=3 CharSearcher=2
//@ functions: topic::is_valid, TryFrom<ByteString> for TopicFilter, TopicFilter::is_valid
//@ bounds: all ASCII (1..=127) strings of length 0..=6
//@ assumes: bytes in 1..=127
//@ mem: 12  timeout: 1800
//@ desc: as tp_valid_agree_4, length 6
tp_valid_agree!(tp_valid_agree_6, 6, 9);

vharness! {
    //@ props: C18
    //@ tier: quick
    //@ stubs: yes
    //@ unwindset: memcmp=3 CharSearcher=2
    //@ expect: fail
    //@ desc: reachability twin of tp_valid_agree (claims every string is an invalid filter)
    #[kani::stub(str::contains, stub_str_contains)]
    #[kani::stub(str::starts_with, stub_str_starts_with)]
    #[kani::stub(core::slice::memchr::memchr, stub_memchr)]
    fn twin_tp_valid_agree() unwind(7) {
        let (d, len) = any_ascii::<4>();
        let s = bstr(d, len);
        assert!(!is_valid(s.as_str()));
    }
}

macro_rules! tp_match {
    ($name:ident, $nf:expr, $nt:expr, $uw:expr) => {
        vharness! {
            #[kani::stub(str::contains, stub_str_contains)]
            #[kani::stub(str::starts_with, stub_str_starts_with)]
            #[kani::stub(core::slice::memchr::memchr, stub_memchr)]
            fn $name() unwind($uw) {
                let (fd, fl) = any_ascii::<$nf>();
                let (td, tl) = any_ascii::<$nt>();
                vk::assume(spec_valid_filter(&fd[..fl]));
                vk::assume(spec_valid_topic(&td[..tl]));
                let f = match TopicFilter::try_from(bstr(fd, fl)) {
                    Ok(f) => f,
                    Err(_) => { assert!(false); return; }
                };
                let t = bstr(td, tl);
                let got = f.matches_topic(t.as_str());
                let want = spec_match(&fd[..fl], &td[..tl]);
                assert!(got == want);
                vcover!(want, "match");
                vcover!(!want, "no match");
                vcover!(want && fd[fl - 1] == b'#' && tl < fl, "multi-level wildcard matches parent");
                vcover!(!want && td[0] == b'$' && fd[0] == b'+', "dollar topic refused by leading +");
                vcover!(want && td[0] == b'$', "dollar topic matched by literal first level");
            }
        }
    };
}
//@ props: C18
//@ tier: quick
//@ stubs: yes
//@ unwindset: memcmp=3 CharSearcher=2
//@ functions: TopicFilter::matches_topic, match_topic, MatchLevel for AsRef<str>, is_system, TryFrom<ByteString> for TopicFilter
//@ bounds: all valid ASCII filters of length 1..=4 x all wildcard-free ASCII topics of length 1..=4
//@ assumes: bytes in 1..=127; filter valid per section 4.7.1 oracle; topic non-empty and wildcard free
//@ mem: 8  timeout: 900
//@ desc: matches_topic == section 4.7 oracle (parent match of #, + on empty levels, $ rule) for every pair
tp_match!(tp_match_4_4, 4, 4, 8);
//@ props: C18
//@ tier: thorough
//@ stubs: yes
//@ unwindset: memcmp=3 CharSearcher=2
//@ functions: TopicFilter::matches_topic, match_topic, MatchLevel for AsRef<str>
//@ bounds: all valid ASCII filters of length 1..=5 x all wildcard-free ASCII topics of length 1..=5
//@ assumes: bytes in 1..=127; filter valid; topic non-empty and wildcard free
//@ mem: 14  timeout: 3000
//@ desc: as tp_match_4_4, length 5
tp_match!(tp_match_5_5, 5, 5, 9);

vharness! {
    //@ props: C18
    //@ tier: quick
    //@ stubs: yes
    //@ unwindset: memcmp=3 CharSearcher=2
    //@ expect: fail
    //@ desc: reachability twin of tp_match (claims nothing ever matches)
    #[kani::stub(str::contains, stub_str_contains)]
    #[kani::stub(str::starts_with, stub_str_starts_with)]
    #[kani::stub(core::slice::memchr::memchr, stub_memchr)]
    fn twin_tp_match() unwind(7) {
        let (fd, fl) = any_ascii::<3>();
        let (td, tl) = any_ascii::<3>();
        vk::assume(spec_valid_filter(&fd[..fl]));
        vk::assume(spec_valid_topic(&td[..tl]));
        if let Ok(f) = TopicFilter::try_from(bstr(fd, fl)) {
            let t = bstr(td, tl);
            assert!(!f.matches_topic(t.as_str()));
        }
    }
}

macro_rules! tp_cover_sound {
    ($name:ident, $n:expr, $uw:expr) => {
        vharness! {
            #[kani::stub(str::contains, stub_str_contains)]
            #[kani::stub(str::starts_with, stub_str_starts_with)]
            #[kani::stub(core::slice::memchr::memchr, stub_memchr)]
            fn $name() unwind($uw) {
                let (fd, fl) = any_ascii::<$n>();
                let (gd, gl) = any_ascii::<$n>();
                let (td, tl) = any_ascii::<$n>();
                vk::assume(spec_valid_filter(&fd[..fl]));
                vk::assume(spec_valid_filter(&gd[..gl]));
                vk::assume(spec_valid_topic(&td[..tl]));
                let f = match TopicFilter::try_from(bstr(fd, fl)) { Ok(f) => f, Err(_) => { assert!(false); return; } };
                let g = match TopicFilter::try_from(bstr(gd, gl)) { Ok(g) => g, Err(_) => { assert!(false); return; } };
                let covers = f.matches_filter(&g);
                let g_matches = spec_match(&gd[..gl], &td[..tl]);
                let f_matches = spec_match(&fd[..fl], &td[..tl]);
                // soundness of the covering relation w.r.t. section 4.7 matching
                assert!(!(covers && g_matches) || f_matches);
                vcover!(covers && g_matches, "covering pair with a witness topic");
                vcover!(!covers, "non-covering pair");
                vcover!(covers && gd[0] == b'$', "covering a filter whose first level starts with $");
            }
        }
    };
}
//@ props: C18
//@ tier: quick
//@ stubs: yes
//@ unwindset: memcmp=3 CharSearcher=2
//@ functions: TopicFilter::matches_filter, match_topic, match_level_impl, TryFrom<ByteString> for TopicFilter
//@ bounds: all triples (covering filter, covered filter, topic), each ASCII of length 1..=3
//@ assumes: bytes in 1..=127; both filters valid, topic valid (section 4.7.1 oracle)
//@ mem: 8  timeout: 900
//@ desc: f.matches_filter(g) and g matches t (oracle) implies f matches t (oracle): the covering relation is sound incl. the $ rule
tp_cover_sound!(tp_cover_sound_3, 3, 7);
//@ props: C18
//@ tier: thorough
//@ stubs: yes
//@ unwindset: memcmp=3 CharSearcher=2
//@ functions: TopicFilter::matches_filter, match_topic, match_level_impl
//@ bounds: all triples, each ASCII of length 1..=4
//@ assumes: bytes in 1..=127; both filters valid, topic valid
//@ mem: 14  timeout: 3000
//@ desc: as tp_cover_sound_3, length 4
tp_cover_sound!(tp_cover_sound_4, 4, 8);

macro_rules! tp_display_rt {
    ($name:ident, $n:expr, $uw:expr) => {
        vharness! {
            #[kani::stub(str::contains, stub_str_contains)]
            #[kani::stub(str::starts_with, stub_str_starts_with)]
            #[kani::stub(core::slice::memchr::memchr, stub_memchr)]
            fn $name() unwind($uw) {
                let (fd, fl) = any_ascii::<$n>();
                vk::assume(spec_valid_filter(&fd[..fl]));
                let f = match TopicFilter::try_from(bstr(fd, fl)) { Ok(f) => f, Err(_) => { assert!(false); return; } };
                // Display / write_topic produce the original text
                let mut out = [0u8; 16];
                let n = {
                    let mut w: &mut [u8] = &mut out[..];
                    match w.write_topic(&f) { Ok(n) => n, Err(_) => { assert!(false); return; } }
                };
                assert!(n == fl);
                let mut i = 0;
                while i < fl {
                    assert!(out[i] == fd[i]);
                    i += 1;
                }
                // parse(display(parse(f))) == parse(f)
                let mut cp = [0u8; $n];
                let mut i = 0;
                while i < fl && i < $n { cp[i] = out[i]; i += 1; }
                let f2 = match TopicFilter::try_from(bstr(cp, fl)) { Ok(f) => f, Err(_) => { assert!(false); return; } };
                assert!(f2 == f);
                vcover!(fl == $n, "full length filter");
                vcover!(f.levels().len() >= 3, "three or more levels");
            }
        }
    };
}
//@ props: C18
//@ tier: quick
//@ stubs: yes
//@ unwindset: memcmp=3 CharSearcher=2
//@ functions: WriteTopicExt::write_topic, write_level, TryFrom<ByteString> for TopicFilter, PartialEq for TopicFilter
//@ bounds: all valid ASCII filters of length 1..=4
//@ assumes: bytes in 1..=127; filter valid
//@ desc: serialising a parsed filter reproduces the text byte for byte and re-parsing yields an equal filter
tp_display_rt!(tp_display_rt_4, 4, 8);
