//! Harnesses mounted inside `v5::codec::codec` (access to the private decoder state and flags):
//! frame layer of C02/C10 for MQTT 5 (one inductive step per decoder state), PUBLISH round trip
//! (C01), outbound limit harnesses (C09) live in h_v5_packet.rs / here where codec state is needed.
use super::*;
use crate::vh::{self, Rd};
use crate::vk;
use ntex_bytes::{Buf, ByteString, BytePages, Bytes, BytesMut};
use ntex_codec::{Decoder, Encoder};
use std::num::{NonZeroU16, NonZeroU32};

use super::super::packet::{Publish as Pub5, PublishProperties};
use crate::types::QoS;

#[cfg(kani)]
use crate::mvec::Vec;

/// Stand-in for the 14 per-type body decoders (decided one by one in h_v5.rs / h_v5_packet.rs).
#[cfg(kani)]
pub(crate) fn stub_decode_packet5(_src: Bytes, _first_byte: u8) -> Result<Packet, DecodeError> {
    if kani::any() { Ok(Packet::PingRequest) } else { Err(DecodeError::MalformedPacket) }
}

/// used only by fr5_step_header: "not enough bytes yet to know the PUBLISH header length"
#[cfg(kani)]
pub(crate) fn stub_packet_header_size(_src: &BytesMut, _flags: u8) -> Result<Option<u32>, DecodeError> {
    Ok(None)
}

/// stand-ins for the non-PUBLISH encoder (unreachable from `Encoded::Publish`, but CBMC does not
/// see the enum discriminant as a constant and would expand all fifteen packet encoders)
#[cfg(kani)]
pub(crate) fn stub_packet_encode5(_p: &Packet, _buf: &mut BytePages, _size: u32) -> Result<(), EncodeError> {
    panic!("unreachable: Packet encoder reached from a PUBLISH harness")
}
#[cfg(kani)]
pub(crate) fn stub_packet_size5(_p: &Packet, _limit: u32) -> usize {
    panic!("unreachable: Packet size reached from a PUBLISH harness")
}

const MAX_RL: u32 = 268_435_455;

fn any_fixed5(publish: bool) -> FixedHeader {
    let remaining_length = vk::any_u32();
    vk::assume(remaining_length <= MAX_RL);
    let first_byte = vk::any_u8();
    vk::assume((first_byte >= 0x30 && first_byte <= 0x3f) == publish);
    FixedHeader { first_byte, remaining_length }
}

fn same_fixed(a: &FixedHeader, b: &FixedHeader) -> bool {
    a.first_byte == b.first_byte && a.remaining_length == b.remaining_length
}

fn spec_fixed5(b: &[u8]) -> Option<(u8, u32, usize)> {
    if b.len() < 2 {
        return None;
    }
    let mut mult: u32 = 1;
    let mut val: u32 = 0;
    let mut i = 1;
    while i < b.len() && i <= 4 {
        val += ((b[i] & 127) as u32) * mult;
        if b[i] & 128 == 0 {
            return Some((b[0], val, i + 1));
        }
        mult *= 128;
        i += 1;
    }
    None
}

macro_rules! fr5_prelude {
    ($codec:ident, $max_in:ident, $min_chunk:ident) => {
        let $codec = Codec::new();
        let $max_in = vk::any_u32();
        let $min_chunk = vk::any_u32();
        $codec.set_max_inbound_size($max_in);
        $codec.set_min_chunk_size($min_chunk);
    };
}

vharness! {
    //@ props: C02 C10
    //@ tier: quick
    //@ stubs: yes
    //@ functions: v5::Codec::decode (FrameHeader arm, Frame arm, entry into the PublishHeader arm), utils::decode_variable_length(_cursor), packet_type::is_publish
    //@ bounds: ONE decode call from the idle state; max_inbound_size, min_chunk_size full-width u32; buffer 0..=8 arbitrary bytes
    //@ unwindset: spec_fixed5=6 decode_variable_length_cursor=6 Decoder>::decode=3 utf8_is_valid=1 parse_publish_properties=1
    //@ assumes: non-PUBLISH body decoders replaced by an arbitrary-result stub (decided per type in h_v5.rs); Publish::packet_header_size stubbed to "need more bytes" (the real one is decided by fr5_step_pubhdr from the PublishHeader pre-state)
    //@ mem: 10  timeout: 1200
    //@ desc: v5 frame layer from idle: incomplete header consumes nothing; over-size frame rejected on the fixed header with nothing consumed; incomplete body consumes exactly the header; complete frame consumes exactly 1+len(RL)+RL whatever the body decoder says
    #[kani::stub(super::super::decode::decode_packet, stub_decode_packet5)]
    #[kani::stub(super::super::packet::Publish::packet_header_size, stub_packet_header_size)]
    fn fr5_step_header() unwind(9) {
        fr5_prelude!(codec, max_in, min_chunk);
        let data: [u8; 8] = vk::any_bytes::<8>();
        let len = vk::any_len(8);
        let mut src = vk::bytesmut_of(data, len);
        let r = codec.decode(&mut src);
        let consumed = len - src.len();
        let post = codec.state.get();
        match spec_fixed5(&data[..len]) {
            None => {
                assert!(consumed == 0);
                let over_long = len >= 5 && data[1] & 128 != 0 && data[2] & 128 != 0 && data[3] & 128 != 0 && data[4] & 128 != 0;
                if over_long {
                    assert!(matches!(r, Err(_)), "five-byte Remaining Length must be rejected");
                } else {
                    assert!(matches!(r, Ok(None)));
                }
                assert!(matches!(post, DecodeState::FrameHeader));
            }
            Some((first, rl, hl)) => {
                if max_in != 0 && rl > max_in {
                    assert!(matches!(r, Err(DecodeError::MaxSizeExceeded { size, max_size }) if size == rl && max_size == max_in));
                    assert!(consumed == 0);
                } else if !(first >= 0x30 && first <= 0x3f) {
                    let avail = len - hl;
                    if avail < rl as usize {
                        assert!(matches!(r, Ok(None)));
                        assert!(consumed == hl);
                        assert!(matches!(post, DecodeState::Frame(h) if h.first_byte == first && h.remaining_length == rl));
                    } else {
                        assert!(consumed == hl + rl as usize);
                        match &r {
                            Ok(Some(Decoded::Packet(_, size))) => {
                                assert!(*size == rl);
                                assert!(matches!(post, DecodeState::FrameHeader));
                            }
                            Err(_) => {}
                            _ => assert!(false),
                        }
                    }
                } else {
                    // PUBLISH: the header-size probe is stubbed to "need more bytes" here (the real one is
                    // decided from the PublishHeader pre-state by fr5_step_pubhdr): exactly the fixed
                    // header is consumed and the publish state entered
                    assert!(matches!(r, Ok(None)));
                    assert!(consumed == hl);
                    assert!(matches!(post, DecodeState::PublishHeader(h) if h.first_byte == first && h.remaining_length == rl));
                }
            }
        }
        vcover!(matches!(r, Ok(Some(Decoded::Packet(..)))), "whole packet");
        vcover!(matches!(r, Err(DecodeError::MaxSizeExceeded { .. })), "max size exceeded");
        vcover!(matches!(r, Ok(None)) && consumed > 0, "header consumed, body pending");
        vcover!(matches!(post, DecodeState::PublishHeader(_)), "publish header pending");
    }
}

vharness! {
    //@ props: C02 C10
    //@ tier: quick
    //@ stubs: yes
    //@ functions: v5::Codec::decode (Frame arm)
    //@ bounds: ONE decode call from an arbitrary Frame(first_byte non-PUBLISH, remaining_length<=268435455) state (inductive step); buffer 0..=8 arbitrary bytes
    //@ assumes: state invariant of Codec::decode; body decoders replaced by an arbitrary-result stub
    //@ desc: v5 frame layer, body pending: nothing consumed until the whole body is buffered, then exactly remaining_length bytes
    #[kani::stub(super::super::decode::decode_packet, stub_decode_packet5)]
    fn fr5_step_frame() unwind(9) {
        fr5_prelude!(codec, max_in, min_chunk);
        let h = any_fixed5(false);
        codec.state.set(DecodeState::Frame(h));
        let data: [u8; 8] = vk::any_bytes::<8>();
        let len = vk::any_len(8);
        let mut src = vk::bytesmut_of(data, len);
        let r = codec.decode(&mut src);
        let consumed = len - src.len();
        let post = codec.state.get();
        if len < h.remaining_length as usize {
            assert!(matches!(r, Ok(None)) && consumed == 0);
            assert!(matches!(post, DecodeState::Frame(p) if same_fixed(&p, &h)));
        } else {
            assert!(consumed == h.remaining_length as usize);
            match &r {
                Ok(Some(Decoded::Packet(_, size))) => {
                    assert!(*size == h.remaining_length);
                    assert!(matches!(post, DecodeState::FrameHeader));
                }
                Err(_) => {}
                _ => assert!(false),
            }
        }
        vcover!(matches!(r, Ok(Some(_))), "packet");
        vcover!(matches!(r, Ok(None)), "need more");
    }
}

/// spec length of the PUBLISH variable header incl. properties, from raw bytes (3.3.2):
/// 2 + topic + (2 if QoS > 0) + len(property length) + property length; None if incomplete
fn spec_pub_hdr_len(b: &[u8], first: u8) -> Option<u64> {
    if b.len() < 2 {
        return None;
    }
    let tl = ((b[0] as usize) << 8) | b[1] as usize;
    let mut off = 2 + tl;
    if (first >> 1) & 3 != 0 {
        off += 2;
    }
    if b.len() < off {
        return None;
    }
    let mut mult: u64 = 1;
    let mut val: u64 = 0;
    let mut k = 0;
    while k < 4 {
        if off + k >= b.len() {
            return None;
        }
        let e = b[off + k];
        val += ((e & 127) as u64) * mult;
        if e & 128 == 0 {
            return Some(off as u64 + k as u64 + 1 + val);
        }
        mult *= 128;
        k += 1;
    }
    None
}

/// what must hold when the decoder announces a PUBLISH from a frame with Remaining Length `rl`
/// whose variable header (incl. properties) is `hdr` bytes long
fn check_publish_item(codec: &Codec, r: &Result<Option<Decoded>, DecodeError>, rl: u32, hdr: u64,
                      consumed_from_hdr: usize, min_chunk: u32) {
    if let Ok(Some(Decoded::Publish(p, payload, size))) = r {
        assert!(*size == rl);
        assert!(hdr <= rl as u64, "variable header longer than the frame");
        assert!(p.payload_size as u64 == rl as u64 - hdr);
        assert!(consumed_from_hdr as u64 == hdr + payload.len() as u64);
        assert!(payload.len() as u64 <= p.payload_size as u64);
        let rest = p.payload_size - payload.len() as u32;
        let post = codec.state.get();
        if rest == 0 {
            assert!(matches!(post, DecodeState::FrameHeader));
        } else {
            assert!(matches!(post, DecodeState::PublishPayload(n) if n == rest));
            assert!(payload.is_empty() || payload.len() as u64 >= min_chunk as u64);
        }
    }
}

vharness! {
    //@ props: C02 C10
    //@ tier: quick
    //@ stubs: yes
    //@ functions: v5::Codec::decode (PublishHeader and PublishProperties arms), Publish::packet_header_size, Publish::decode, parse_publish_properties, utils::take_properties
    //@ bounds: ONE decode call from an arbitrary PublishHeader(first_byte in 0x30..=0x3f, remaining_length<=268435455) state; min_chunk_size full width; buffer 0..=8 arbitrary bytes
    //@ unwindset: utf8_is_valid=8 decode_variable_length_cursor=6 parse_publish_properties=8
    //@ assumes: state invariant of Codec::decode
    //@ mem: 10  timeout: 1200
    //@ desc: v5 PUBLISH header: length computed as the spec says; header+properties lie inside the frame (else an error, never an underflow); payload_size == RL - header; first payload piece bounded; next state exact; minimum chunk respected
    #[kani::stub(super::super::decode::decode_packet, stub_decode_packet5)]
    fn fr5_step_pubhdr() unwind(9) {
        fr5_prelude!(codec, max_in, min_chunk);
        let h = any_fixed5(true);
        codec.state.set(DecodeState::PublishHeader(h));
        let data: [u8; 8] = vk::any_bytes::<8>();
        let len = vk::any_len(8);
        let mut src = vk::bytesmut_of(data, len);
        let r = codec.decode(&mut src);
        let consumed = len - src.len();
        let post = codec.state.get();
        let sh = spec_pub_hdr_len(&data[..len], h.first_byte);
        match &r {
            Ok(None) => {
                assert!(consumed == 0);
                match sh {
                    None => assert!(matches!(post, DecodeState::PublishHeader(p) if same_fixed(&p, &h))),
                    Some(l) => assert!(matches!(post, DecodeState::PublishProperties(n, p) if n as u64 == l && same_fixed(&p, &h))),
                }
            }
            Ok(Some(Decoded::Publish(..))) => {
                assert!(sh.is_some());
                check_publish_item(&codec, &r, h.remaining_length, sh.unwrap(), consumed, min_chunk);
            }
            Err(_) => {}
            _ => assert!(false),
        }
        vcover!(matches!(r, Ok(Some(Decoded::Publish(..)))) && matches!(post, DecodeState::PublishPayload(_)), "payload pending");
        vcover!(matches!(r, Ok(Some(Decoded::Publish(..)))) && matches!(post, DecodeState::FrameHeader), "complete");
        vcover!(matches!(r, Ok(None)) && matches!(post, DecodeState::PublishProperties(..)), "header length known, bytes pending");
        vcover!(matches!(r, Err(_)), "error");
    }
}

vharness! {
    //@ props: C02 C10
    //@ tier: quick
    //@ stubs: yes
    //@ functions: v5::Codec::decode (PublishProperties arm), Publish::decode, parse_publish_properties
    //@ bounds: ONE decode call from an arbitrary PublishProperties(header_len: u32 any value, fixed header) state; buffer 0..=8 arbitrary bytes
    //@ unwindset: utf8_is_valid=8 decode_variable_length_cursor=6 parse_publish_properties=8
    //@ assumes: state invariant of Codec::decode (PUBLISH first byte, lengths <= 268435455); the stored header length is ANY u32 (stronger than what packet_header_size can produce)
    //@ mem: 10  timeout: 1200
    //@ desc: v5 PUBLISH with the header length already known: a header length beyond the Remaining Length is an error (never an underflow, never a wait); otherwise as fr5_step_pubhdr
    #[kani::stub(super::super::decode::decode_packet, stub_decode_packet5)]
    fn fr5_step_pubprops() unwind(9) {
        fr5_prelude!(codec, max_in, min_chunk);
        let h = any_fixed5(true);
        let hl = vk::any_u32();
        codec.state.set(DecodeState::PublishProperties(hl, h));
        let data: [u8; 8] = vk::any_bytes::<8>();
        let len = vk::any_len(8);
        let mut src = vk::bytesmut_of(data, len);
        let r = codec.decode(&mut src);
        let consumed = len - src.len();
        let post = codec.state.get();
        if hl > h.remaining_length {
            assert!(matches!(r, Err(_)), "header longer than the frame must be an error");
        }
        match &r {
            Ok(None) => {
                assert!(consumed == 0 && (len as u64) < hl as u64);
                assert!(matches!(post, DecodeState::PublishProperties(n, p) if n == hl && same_fixed(&p, &h)));
            }
            Ok(Some(Decoded::Publish(..))) => check_publish_item(&codec, &r, h.remaining_length, hl as u64, consumed, min_chunk),
            Err(_) => {}
            _ => assert!(false),
        }
        vcover!(matches!(r, Ok(Some(Decoded::Publish(..)))), "publish");
        vcover!(matches!(r, Err(_)) && hl > h.remaining_length, "header beyond the frame rejected");
        vcover!(matches!(r, Ok(None)), "need more");
    }
}

vharness! {
    //@ props: C02 C10
    //@ tier: quick
    //@ stubs: yes
    //@ functions: v5::Codec::decode (PublishPayload arm)
    //@ bounds: ONE decode call from an arbitrary PublishPayload(1..=268435455) state; min_chunk_size full width; buffer 0..=8 arbitrary bytes
    //@ assumes: state invariant of Codec::decode (pending payload >= 1)
    //@ desc: v5 payload streaming: chunk non-empty, never beyond the pending remainder, eof iff remainder exhausted, non-final chunk >= min_chunk_size, a fully buffered remainder is always delivered
    #[kani::stub(super::super::decode::decode_packet, stub_decode_packet5)]
    fn fr5_step_payload() unwind(9) {
        fr5_prelude!(codec, max_in, min_chunk);
        let rem = vk::any_u32();
        vk::assume(rem >= 1 && rem <= MAX_RL);
        codec.state.set(DecodeState::PublishPayload(rem));
        let data: [u8; 8] = vk::any_bytes::<8>();
        let len = vk::any_len(8);
        let mut src = vk::bytesmut_of(data, len);
        let r = codec.decode(&mut src);
        let consumed = len - src.len();
        let post = codec.state.get();
        match &r {
            Ok(None) => {
                assert!(consumed == 0);
                assert!(matches!(post, DecodeState::PublishPayload(n) if n == rem));
            }
            Ok(Some(Decoded::PayloadChunk(chunk, eof))) => {
                assert!(consumed == chunk.len());
                assert!(!chunk.is_empty());
                assert!(chunk.len() as u64 <= rem as u64);
                assert!(*eof == (chunk.len() as u64 == rem as u64));
                if *eof {
                    assert!(matches!(post, DecodeState::FrameHeader));
                } else {
                    assert!(matches!(post, DecodeState::PublishPayload(n) if n == rem - chunk.len() as u32));
                    assert!(chunk.len() as u64 >= min_chunk as u64);
                }
            }
            _ => assert!(false),
        }
        if len as u64 >= rem as u64 {
            assert!(matches!(r, Ok(Some(Decoded::PayloadChunk(_, true)))));
        }
        vcover!(matches!(r, Ok(Some(Decoded::PayloadChunk(_, true)))), "final chunk");
        vcover!(matches!(r, Ok(Some(Decoded::PayloadChunk(_, false)))), "non-final chunk");
        vcover!(matches!(r, Ok(None)), "need more");
    }
}

vharness! {
    //@ props: C02
    //@ tier: quick
    //@ stubs: yes
    //@ expect: fail
    //@ desc: reachability twin of the fr5_step_* family (claims decode never yields an item)
    #[kani::stub(super::super::decode::decode_packet, stub_decode_packet5)]
    fn twin_fr5_step() unwind(9) {
        let codec = Codec::new();
        let rem = vk::any_u32();
        vk::assume(rem >= 1 && rem <= MAX_RL);
        codec.state.set(DecodeState::PublishPayload(rem));
        let data: [u8; 4] = vk::any_bytes::<4>();
        let len = vk::any_len(4);
        let mut src = vk::bytesmut_of(data, len);
        let r = codec.decode(&mut src);
        assert!(!matches!(r, Ok(Some(_))));
    }
}

// ---- PUBLISH round trip (C01, C09) ----------------------------------------------------------------
pub(crate) fn any_sub_id5() -> NonZeroU32 {
    let v = vh::any_nz32();
    vk::assume(v.get() <= MAX_RL);
    v
}

/// 3.3.2.3 publish properties: 0x01 byte, 0x02 u32, 0x23 u16 (0 illegal), 0x08 str, 0x09 bin,
/// 0x26 pair (repeatable), 0x0B varint (repeatable, order preserved), 0x03 str
pub(crate) fn spec_check_publish_props(r: &mut Rd<'_>, p: &PublishProperties) -> bool {
    let n = r.varint() as usize;
    if n > r.left() {
        r.bad = true;
        return false;
    }
    let end = r.pos + n;
    let mut ok = true;
    let (mut s01, mut s02, mut s23, mut s08, mut s09, mut s03) = (false, false, false, false, false, false);
    let mut ui = 0;
    let mut si = 0;
    let mut guard = 0;
    while r.pos < end && !r.bad && guard < 10 {
        match r.u8() {
            0x01 => { ok &= !s01; s01 = true; let b = r.u8(); ok &= b <= 1 && (b == 1) == p.is_utf8_payload; }
            0x02 => { ok &= !s02; s02 = true; ok &= Some(r.u32()) == p.message_expiry_interval.map(|v| v.get()); }
            0x23 => { ok &= !s23; s23 = true; ok &= Some(r.u16()) == p.topic_alias.map(|v| v.get()); }
            0x08 => { ok &= !s08; s08 = true; match &p.response_topic { Some(s) => ok &= r.expect_lp(s.as_bytes()), None => ok = false } }
            0x09 => { ok &= !s09; s09 = true; match &p.correlation_data { Some(s) => ok &= r.expect_lp(s), None => ok = false } }
            0x03 => { ok &= !s03; s03 = true; match &p.content_type { Some(s) => ok &= r.expect_lp(s.as_bytes()), None => ok = false } }
            0x0B => {
                if si < p.subscription_ids.len() {
                    ok &= r.varint() == p.subscription_ids[si].get();
                    si += 1;
                } else {
                    ok = false;
                }
            }
            0x26 => {
                if ui < p.user_properties.len() {
                    ok &= r.expect_lp(p.user_properties[ui].0.as_bytes()) & r.expect_lp(p.user_properties[ui].1.as_bytes());
                    ui += 1;
                } else {
                    ok = false;
                }
            }
            _ => ok = false,
        }
        guard += 1;
    }
    ok && r.pos == end && ui == p.user_properties.len() && si == p.subscription_ids.len()
        && (s01 || !p.is_utf8_payload) && s02 == p.message_expiry_interval.is_some()
        && s23 == p.topic_alias.is_some() && s08 == p.response_topic.is_some()
        && s09 == p.correlation_data.is_some() && s03 == p.content_type.is_some()
}

pub(crate) fn any_publish_props5<const S: usize>() -> PublishProperties {
    let mut subscription_ids = Vec::new();
    if vk::any_bool() {
        subscription_ids.push(any_sub_id5());
    }
    let mut user_properties = Vec::new();
    if vk::any_bool() {
        user_properties.push((vh::any_str::<S>(), vh::any_str::<S>()));
    }
    PublishProperties {
        topic_alias: vh::any_opt_nz16(),
        correlation_data: vh::any_opt_bin::<S>(),
        message_expiry_interval: vh::any_opt_nz32(),
        content_type: vh::any_opt_str::<S>(),
        user_properties,
        is_utf8_payload: vk::any_bool(),
        response_topic: vh::any_opt_str::<S>(),
        subscription_ids,
    }
}

macro_rules! rt5_publish_group {
    ($name:ident, |$p:ident| $cfg:block, $pl:expr, $cov:expr) => {
        vharness! {
            #[kani::stub(super::super::decode::decode_packet, stub_decode_packet5)]
            #[kani::stub(<Packet as EncodeLtd>::encode, stub_packet_encode5)]
            #[kani::stub(<Packet as EncodeLtd>::encoded_size, stub_packet_size5)]
            fn $name() unwind(9) {
                let payload = vh::any_bin::<$pl>();
                let mut $p = Pub5 {
                    dup: false,
                    retain: false,
                    qos: QoS::AtMostOnce,
                    packet_id: None,
                    topic: vh::any_str::<1>(),
                    payload_size: payload.len() as u32,
                    properties: PublishProperties::default(),
                };
                $cfg;
                let $p = $p;
                let legal = ($p.qos == QoS::AtMostOnce) == $p.packet_id.is_none();
                let codec = Codec::new();
                let mut pages = BytePages::default();
                let r = codec.encodev(Encoded::Publish($p.clone(), Some(payload.clone())), &mut pages);
                if !legal {
                    assert!(r.is_err());
                    assert!(pages.len() == 0, "a failed encode appends no bytes");
                    return;
                }
                assert!(r.is_ok());
                let out = pages.freeze();
                let first = 0x30 | (($p.dup as u8) << 3) | (vh::qos_num($p.qos) << 1) | ($p.retain as u8);
                let mut rd = Rd::new(&out);
                assert!(rd.u8() == first);
                let rl = rd.varint();
                assert!(rl as usize == rd.left());
                assert!(rd.expect_lp($p.topic.as_bytes()));
                if let Some(id) = $p.packet_id { assert!(rd.u16() == id.get()); }
                assert!(spec_check_publish_props(&mut rd, &$p.properties));
                assert!(rd.expect_raw(&payload));
                assert!(rd.at_end() && !rd.bad);
                // decode with the two functions the decoder's PublishHeader / PublishProperties arms call
                // (the arms themselves - state transitions, lengths, payload hand-over - are decided
                // from arbitrary states by fr5_step_pubhdr / fr5_step_pubprops; driving the whole
                // `Codec::decode` loop from here costs 13 min of symbolic execution: rt5_publish_whole)
                let hl0 = 1 + vh::spec_varint_len(rl);
                let mut src = BytesMut::from(out.slice(hl0..out.len()));
                let hl = match Pub5::packet_header_size(&src, first) {
                    Ok(Some(n)) => n,
                    _ => { assert!(false, "header size not recognised"); 0 }
                };
                assert!(hl as usize + payload.len() == rl as usize, "header length + payload != Remaining Length");
                let mut hdr = src.split_to(hl as usize);
                match Pub5::decode(&mut hdr, first, rl - hl) {
                    Ok(p2) => assert!(p2 == $p),
                    Err(_) => assert!(false, "own PUBLISH not decodable"),
                }
                assert!(src.freeze() == payload, "payload bytes differ");
                vcover!($cov, "group fields all present");
            }
        }
    };
}
//@ props: C01 C09
//@ tier: quick
//@ stubs: yes
//@ functions: v5::Codec::encodev (Publish arm), EncodeLtd for Publish, v5::Codec::decode (FrameHeader, PublishHeader, PublishProperties arms), Publish::packet_header_size, Publish::decode
//@ bounds: group 1: dup/retain/qos/packet-id presence symbolic, id full width, topic 0..=1 byte, payload 0..=2 symbolic bytes delivered with the header; no properties
//@ unwindset: utf8_is_valid=3 slice_eq=4 expect_lp=4 expect_raw=4 decode_variable_length_cursor=6 parse_publish_properties=3 spec_check_publish_props=3 clone=3 extend_from_slice=6
//@ assumes: topic well-formed UTF-8; non-PUBLISH body decoders stubbed (unreachable here)
//@ mem: 12  timeout: 1500
//@ desc: v5 PUBLISH fixed part: illegal id/QoS combinations are Err and append nothing; otherwise first byte flags, topic, id, empty property list, payload; decode returns the same and consumes exactly the frame
rt5_publish_group!(rt5_publish_g1, |p| {
    p.dup = vk::any_bool();
    p.retain = vk::any_bool();
    p.qos = vh::any_qos();
    p.packet_id = vh::any_opt_nz16();
}, 2, p.qos == QoS::ExactlyOnce && p.dup && p.retain && p.packet_id.is_some());
//@ props: C01 C09
//@ tier: quick
//@ stubs: yes
//@ functions: EncodeLtd for PublishProperties, encode_property(_default), var_int_len_from_size, parse_publish_properties, Option<T>::read_value
//@ bounds: group 2: topic alias, message expiry (full width, optional), payload-format flag; QoS 1 with id; payload 0..=1 byte
//@ unwindset: utf8_is_valid=3 slice_eq=4 expect_lp=4 expect_raw=4 decode_variable_length_cursor=6 parse_publish_properties=5 spec_check_publish_props=5 clone=3 extend_from_slice=6
//@ assumes: topic well-formed UTF-8
//@ mem: 12  timeout: 1500
//@ desc: v5 PUBLISH properties 0x23 0x02 0x01 (ids/types per spec 3.3.2.3), round trip through the streaming decoder arms
rt5_publish_group!(rt5_publish_g2, |p| {
    p.qos = QoS::AtLeastOnce;
    p.packet_id = Some(vh::any_nz16());
    p.properties.topic_alias = vh::any_opt_nz16();
    p.properties.message_expiry_interval = vh::any_opt_nz32();
    p.properties.is_utf8_payload = vk::any_bool();
}, 1, p.properties.topic_alias.is_some() && p.properties.message_expiry_interval.is_some() && p.properties.is_utf8_payload);
//@ props: C01 C09
//@ tier: quick
//@ stubs: yes
//@ functions: EncodeLtd for PublishProperties, parse_publish_properties
//@ bounds: group 3: correlation data, content type, response topic (0..=1 byte each, optional); QoS 0; payload 0..=1 byte
//@ unwindset: utf8_is_valid=3 slice_eq=4 expect_lp=4 expect_raw=4 decode_variable_length_cursor=6 parse_publish_properties=5 spec_check_publish_props=5 clone=3 extend_from_slice=6
//@ assumes: strings well-formed UTF-8
//@ mem: 12  timeout: 1500
//@ desc: v5 PUBLISH properties 0x09 0x03 0x08, round trip
rt5_publish_group!(rt5_publish_g3, |p| {
    p.properties.correlation_data = vh::any_opt_bin::<1>();
    p.properties.content_type = vh::any_opt_str::<1>();
    p.properties.response_topic = vh::any_opt_str::<1>();
}, 1, p.properties.correlation_data.is_some() && p.properties.content_type.is_some() && p.properties.response_topic.is_some());
//@ props: C01 C09
//@ tier: thorough
//@ stubs: yes
//@ functions: EncodeLtd for PublishProperties, Encode for UserProperties, var_int_len, write_variable_length, parse_publish_properties
//@ bounds: group 4: 0..=1 user property (0..=1-byte strings), 0..=2 subscription identifiers over 1..=268435455; QoS 0; payload 0..=1 byte
//@ unwindset: utf8_is_valid=3 slice_eq=4 expect_lp=4 expect_raw=4 decode_variable_length_cursor=6 parse_publish_properties=5 spec_check_publish_props=5 clone=4 extend_from_slice=6 PublishProperties=4 varint=5
//@ assumes: strings well-formed UTF-8; subscription identifiers within the MQTT range
//@ mem: 12  timeout: 1500
//@ desc: v5 PUBLISH repeatable properties 0x26 and 0x0B (variable byte integer, order preserved), round trip
rt5_publish_group!(rt5_publish_g4, |p| {
    if vk::any_bool() {
        p.properties.user_properties.push((vh::any_str::<1>(), vh::any_str::<1>()));
    }
    let n = vk::any_len(2);
    let mut i = 0;
    while i < n {
        p.properties.subscription_ids.push(any_sub_id5());
        i += 1;
    }
}, 1, p.properties.user_properties.len() == 1 && p.properties.subscription_ids.len() == 2);

// ===================================================================================================
// C09: outbound limit (MQTT 5 Maximum Packet Size), request-problem-information, failed encodes
// ===================================================================================================
use super::super::packet::{Auth, ConnectAck, Disconnect, PublishAck, PublishAck2, SubscribeAck, UnsubscribeAck};
use super::super::{UserProperties, UserProperty};
use crate::v5::codec::verif_v5::{
    any_auth_reason, any_connack_reason, any_disconnect_reason, any_puback2_reason, any_puback_reason,
    any_suback_reason, any_unsuback_reason, props_begin,
};

fn any_user_props2<const S: usize>() -> UserProperties {
    let n = vk::any_len(2);
    let mut v = Vec::new();
    let mut i = 0;
    while i < n {
        v.push((vh::any_str::<S>(), vh::any_str::<S>()));
        i += 1;
    }
    v
}

/// wire size of the diagnostics when nothing is dropped (spec arithmetic: id + 2 length-prefixed
/// strings per user property, id + length-prefixed reason string)
fn diag_full_len(ups: &[UserProperty], rs: &Option<ByteString>) -> usize {
    let mut n = 0;
    let mut i = 0;
    while i < ups.len() {
        n += 1 + 2 + ups[i].0.len() + 2 + ups[i].1.len();
        i += 1;
    }
    if let Some(s) = rs {
        n += 1 + 2 + s.len();
    }
    n
}

/// Reads a property section that may contain, besides the `other` properties handled by the
/// caller-provided ids (skipped via `skip`), User Properties and a Reason String. Shortening rule
/// of the property: the user properties on the wire are a PREFIX of the original list (whole
/// properties, never truncated), the reason string is either the original or absent.
/// Returns (ok, user properties present, reason string present).
fn spec_read_diag_lim(r: &mut Rd<'_>, end: usize, ups: &[UserProperty], rs: &Option<ByteString>) -> (bool, usize, bool) {
    let mut ok = true;
    let mut idx = 0;
    let mut seen_rs = false;
    let mut guard = 0;
    while r.pos < end && !r.bad && guard < 6 {
        match r.u8() {
            0x26 => {
                if idx < ups.len() {
                    ok &= r.expect_lp(ups[idx].0.as_bytes()) & r.expect_lp(ups[idx].1.as_bytes());
                    idx += 1;
                } else {
                    ok = false;
                }
            }
            0x1F => {
                ok &= !seen_rs;
                seen_rs = true;
                match rs {
                    Some(s) => ok &= r.expect_lp(s.as_bytes()),
                    None => ok = false,
                }
            }
            _ => ok = false,
        }
        guard += 1;
    }
    (ok && r.pos == end, idx, seen_rs)
}

/// common post-conditions of one `encodev` under an outbound limit.
/// `peer_max` = the peer's Maximum Packet Size (0 = none announced)
fn lim_frame<'a>(out: &'a Bytes, first: u8, peer_max: u32) -> (Rd<'a>, u32) {
    let mut r = Rd::new(out);
    assert!(r.u8() == first);
    let rl = r.varint();
    assert!(!r.bad);
    assert!(rl as usize == r.left(), "exactly one frame, truthful Remaining Length");
    if peer_max != 0 {
        assert!(out.len() as u64 <= peer_max as u64, "frame exceeds the peer's Maximum Packet Size");
    }
    (r, rl)
}

fn lim_codec(peer_max: u32, no_problem_info: bool) -> Codec {
    let codec = Codec::new();
    if peer_max != 0 {
        codec.set_max_outbound_size(peer_max);
    }
    if no_problem_info {
        codec.flags.set(CodecFlags::NO_PROBLEM_INFO);
    }
    codec
}

/// peers announcing a Maximum Packet Size below 6 are the subject of a recorded finding
/// (lim5_small_peer); every other limit value is in scope here
fn any_peer_max() -> u32 {
    let p = vk::any_u32();
    vk::assume(p == 0 || p >= 6);
    p
}

macro_rules! lim5_ack {
    ($name:ident, $variant:ident, $ty:ident, $reason:ident, $first:expr) => {
        vharness! {
            fn $name() unwind(6) {
                let (reason_code, num) = $reason();
                let pkt = $ty {
                    packet_id: vh::any_nz16(),
                    reason_code,
                    properties: any_user_props2::<1>(),
                    reason_string: vh::any_opt_str::<2>(),
                };
                let peer_max = any_peer_max();
                let npi = vk::any_bool();
                let codec = lim_codec(peer_max, npi);
                let mut pages = BytePages::default();
                let r = codec.encodev(Encoded::Packet(Packet::$variant(pkt.clone())), &mut pages); // no panic/overflow for ANY limit
                match r {
                    Err(e) => {
                        assert!(pages.len() == 0, "a failed encode appends no bytes");
                        assert!(e == EncodeError::OverMaxPacketSize);
                        // only when even the diagnostics-free packet (id, reason, empty property list =
                        // 4 bytes) does not fit next to the 5 bytes the codec reserves for the fixed
                        // header (1 + the longest Remaining Length, see set_max_outbound_size)
                        assert!(peer_max != 0 && (4 + 5) as u64 > peer_max as u64);
                    }
                    Ok(()) => {
                        let out = pages.freeze();
                        let (mut rd, rl) = lim_frame(&out, $first, peer_max);
                        assert!(rd.u16() == pkt.packet_id.get());
                        assert!(rd.u8() == num);
                        let end = props_begin(&mut rd);
                        let (ok, n_up, has_rs) = spec_read_diag_lim(&mut rd, end, &pkt.properties, &pkt.reason_string);
                        assert!(ok && rd.at_end() && !rd.bad, "every other field unchanged; diagnostics whole or absent");
                        if npi {
                            assert!(n_up == 0 && !has_rs, "problem information declined: no diagnostics");
                        } else if peer_max == 0 || peer_max as u64 >= (2 + 3 + 4 + 4 + 5 + diag_full_len(&pkt.properties, &pkt.reason_string)) as u64 {
                            // nothing is dropped when there is clearly room
                            assert!(n_up == pkt.properties.len() && has_rs == pkt.reason_string.is_some());
                        }
                        // the size the library reports equals what it wrote
                        let lim = if peer_max == 0 { 0xFFF_FFFF } else { peer_max - 5 };
                        let mut again = pkt.clone();
                        if npi { again.properties.clear(); again.reason_string = None; }
                        assert!(again.encoded_size(lim) == rl as usize);
                        vcover!(n_up == 1 && pkt.properties.len() == 2, "second user property dropped, first kept");
                        vcover!(!has_rs && pkt.reason_string.is_some() && !npi, "reason string dropped by the limit");
                        vcover!(n_up == 2 && has_rs, "nothing dropped");
                        vcover!(npi && pkt.properties.len() == 2, "diagnostics stripped on request");
                    }
                }
            }
        }
    };
}
//@ props: C09 C08
//@ tier: quick
//@ functions: v5::Codec::{encodev, set_max_outbound_size}, EncodeLtd for Packet / PublishAck, ack_props::{encoded_size, encode}, encoded_size_opt_props, encode_opt_props, var_int_len, var_int_len_from_size
//@ bounds: peer Maximum Packet Size: EVERY u32 value except 1..=5 (0 = unlimited); request-problem-information flag symbolic; packet id full width; all reason codes; 0..=2 user properties (0..=1-byte strings); optional reason string 0..=2 bytes
//@ unwindset: utf8_is_valid=4 slice_eq=4 expect_lp=4 any_user_props2=4 encode_opt_props=4 encoded_size_opt_props=4 clone=4 spec_read_diag_lim=5 diag_full_len=4 clear=4
//@ assumes: strings well-formed UTF-8; peer limits 1..=5 excluded (recorded finding lim5_small_peer)
//@ mem: 10  timeout: 1500
//@ desc: PUBACK under an outbound limit: no panic for any limit; Ok => one frame, truthful length == reported size, within the peer limit, only whole trailing diagnostics dropped; Err => OverMaxPacketSize and nothing appended; declined problem information => no diagnostics
lim5_ack!(lim5_puback, PublishAck, PublishAck, any_puback_reason, 0x40);
//@ props: C09
//@ tier: quick
//@ functions: v5::Codec::{encodev, set_max_outbound_size}, EncodeLtd for PublishAck2, ack_props::*, encoded_size_opt_props, encode_opt_props
//@ bounds: as lim5_puback (PUBREL; both reason codes)
//@ unwindset: utf8_is_valid=4 slice_eq=4 expect_lp=4 any_user_props2=4 encode_opt_props=4 encoded_size_opt_props=4 clone=4 spec_read_diag_lim=5 diag_full_len=4 clear=4
//@ assumes: strings well-formed UTF-8; peer limits 1..=5 excluded (recorded finding)
//@ mem: 10  timeout: 1500
//@ desc: PUBREL under an outbound limit (same obligations as lim5_puback)
lim5_ack!(lim5_pubrel, PublishRelease, PublishAck2, any_puback2_reason, 0x62);

macro_rules! lim5_suback {
    ($name:ident, $variant:ident, $ty:ident, $reason:ident, $first:expr) => {
        vharness! {
            fn $name() unwind(7) {
                let n = vk::any_len(4);
                let mut status = Vec::new();
                let mut wire = [0u8; 4];
                let mut i = 0;
                while i < n {
                    let (c, w) = $reason();
                    status.push(c);
                    wire[i] = w;
                    i += 1;
                }
                let pkt = $ty {
                    packet_id: vh::any_nz16(),
                    properties: any_user_props2::<1>(),
                    reason_string: vh::any_opt_str::<2>(),
                    status,
                };
                let peer_max = any_peer_max();
                let npi = vk::any_bool();
                let codec = lim_codec(peer_max, npi);
                let mut pages = BytePages::default();
                let r = codec.encodev(Encoded::Packet(Packet::$variant(pkt.clone())), &mut pages);
                match r {
                    Err(e) => {
                        assert!(pages.len() == 0, "a failed encode appends no bytes");
                        assert!(e == EncodeError::OverMaxPacketSize);
                        // bare packet: id(2) + empty property list(1) + codes(n), next to the 5 reserved header bytes
                        assert!(peer_max != 0 && (3 + n + 5) as u64 > peer_max as u64);
                    }
                    Ok(()) => {
                        let out = pages.freeze();
                        let (mut rd, rl) = lim_frame(&out, $first, peer_max);
                        assert!(rd.u16() == pkt.packet_id.get());
                        let end = props_begin(&mut rd);
                        let (ok, n_up, has_rs) = spec_read_diag_lim(&mut rd, end, &pkt.properties, &pkt.reason_string);
                        assert!(ok);
                        assert!(rd.expect_raw(&wire[..n]), "reason codes unchanged");
                        assert!(rd.at_end() && !rd.bad);
                        if npi {
                            assert!(n_up == 0 && !has_rs, "problem information declined: no diagnostics");
                        } else if peer_max == 0 || peer_max as u64 >= (2 + 2 + n + 4 + 4 + 5 + diag_full_len(&pkt.properties, &pkt.reason_string)) as u64 {
                            assert!(n_up == pkt.properties.len() && has_rs == pkt.reason_string.is_some());
                        }
                        let lim = if peer_max == 0 { 0xFFF_FFFF } else { peer_max - 5 };
                        let mut again = pkt.clone();
                        if npi { again.properties.clear(); again.reason_string = None; }
                        assert!(again.encoded_size(lim) == rl as usize);
                        vcover!(n_up == 1 && pkt.properties.len() == 2, "second user property dropped, first kept");
                        vcover!(!has_rs && pkt.reason_string.is_some() && !npi, "reason string dropped by the limit");
                        vcover!(n_up == 2 && has_rs && n == 4, "nothing dropped, four codes");
                        vcover!(n == 4 && n_up == 0 && pkt.properties.len() == 1 && !npi, "diagnostics dropped to make room for four codes");
                    }
                }
            }
        }
    };
}
//@ props: C09 C08
//@ tier: quick
//@ functions: v5::Codec::{encodev, set_max_outbound_size}, EncodeLtd for SubscribeAck, ack_props::*, reduce_limit, encoded_size_opt_props, encode_opt_props
//@ bounds: peer Maximum Packet Size: every u32 except 1..=5; request-problem-information symbolic; 0..=4 reason codes; 0..=2 user properties (0..=1-byte strings); optional reason string 0..=2 bytes
//@ unwindset: utf8_is_valid=4 slice_eq=4 expect_lp=4 expect_raw=6 any_user_props2=4 encode_opt_props=4 encoded_size_opt_props=4 clone=6 spec_read_diag_lim=5 diag_full_len=4 clear=4 SubscribeAck=6
//@ assumes: strings well-formed UTF-8; peer limits 1..=5 excluded (recorded finding)
//@ mem: 10  timeout: 1500
//@ desc: SUBACK under an outbound limit (obligations as lim5_puback; reason codes never dropped)
lim5_suback!(lim5_suback, SubscribeAck, SubscribeAck, any_suback_reason, 0x90);
//@ props: C09
//@ tier: quick
//@ functions: v5::Codec::{encodev, set_max_outbound_size}, EncodeLtd for UnsubscribeAck, ack_props::*, reduce_limit
//@ bounds: as lim5_suback
//@ unwindset: utf8_is_valid=4 slice_eq=4 expect_lp=4 expect_raw=6 any_user_props2=4 encode_opt_props=4 encoded_size_opt_props=4 clone=6 spec_read_diag_lim=5 diag_full_len=4 clear=4 UnsubscribeAck=6
//@ assumes: strings well-formed UTF-8; peer limits 1..=5 excluded (recorded finding)
//@ mem: 10  timeout: 1500
//@ desc: UNSUBACK under an outbound limit
lim5_suback!(lim5_unsuback, UnsubscribeAck, UnsubscribeAck, any_unsuback_reason, 0xB0);

vharness! {
    //@ props: C09 C15
    //@ tier: quick
    //@ functions: v5::Codec::{encodev, set_max_outbound_size}, EncodeLtd for Disconnect, reduce_limit, encoded_size_opt_props, encode_opt_props, var_int_len_from_size
    //@ bounds: peer Maximum Packet Size: every u32 except 1..=5; all 30 reason codes; optional session expiry (full width) and server reference (0..=1 byte) - never droppable; 0..=2 user properties (0..=1-byte strings); optional reason string 0..=2 bytes
    //@ unwindset: utf8_is_valid=4 slice_eq=4 expect_lp=4 any_user_props2=4 encode_opt_props=4 encoded_size_opt_props=4 clone=4 diag_full_len=4 Disconnect=6
    //@ assumes: strings well-formed UTF-8; peer limits 1..=5 excluded (recorded finding)
    //@ mem: 10  timeout: 1500
    //@ desc: DISCONNECT under an outbound limit: session expiry and server reference are never dropped; user properties shortened to a prefix, reason string whole or absent; size truthful; Err => OverMaxPacketSize with nothing appended
    fn lim5_disconnect() unwind(6) {
        let (reason_code, num) = any_disconnect_reason();
        let pkt = Disconnect {
            reason_code,
            session_expiry_interval_secs: vh::any_opt_u32(),
            server_reference: vh::any_opt_str::<1>(),
            reason_string: vh::any_opt_str::<2>(),
            user_properties: any_user_props2::<1>(),
        };
        let peer_max = any_peer_max();
        let codec = lim_codec(peer_max, false);
        let mut pages = BytePages::default();
        let r = codec.encodev(Encoded::Packet(Packet::Disconnect(pkt.clone())), &mut pages);
        let fixed_props = if pkt.session_expiry_interval_secs.is_some() { 5 } else { 0 }
            + match &pkt.server_reference { Some(s) => 3 + s.len(), None => 0 };
        match r {
            Err(e) => {
                assert!(pages.len() == 0, "a failed encode appends no bytes");
                assert!(e == EncodeError::OverMaxPacketSize);
                assert!(peer_max != 0 && (1 + 1 + fixed_props + 5) as u64 > peer_max as u64);
            }
            Ok(()) => {
                let out = pages.freeze();
                let (mut rd, rl) = lim_frame(&out, 0xE0, peer_max);
                assert!(rd.u8() == num);
                let end = props_begin(&mut rd);
                let (mut s11, mut s1c, mut s1f) = (false, false, false);
                let mut idx = 0;
                let mut guard = 0;
                while rd.pos < end && !rd.bad && guard < 7 {
                    match rd.u8() {
                        0x11 => { assert!(!s11); s11 = true; assert!(Some(rd.u32()) == pkt.session_expiry_interval_secs); }
                        0x1C => { assert!(!s1c); s1c = true; match &pkt.server_reference { Some(s) => assert!(rd.expect_lp(s.as_bytes())), None => assert!(false) } }
                        0x1F => { assert!(!s1f); s1f = true; match &pkt.reason_string { Some(s) => assert!(rd.expect_lp(s.as_bytes())), None => assert!(false) } }
                        0x26 => {
                            assert!(idx < pkt.user_properties.len());
                            assert!(rd.expect_lp(pkt.user_properties[idx].0.as_bytes()) & rd.expect_lp(pkt.user_properties[idx].1.as_bytes()));
                            idx += 1;
                        }
                        _ => assert!(false),
                    }
                    guard += 1;
                }
                assert!(rd.pos == end && rd.at_end() && !rd.bad);
                assert!(s11 == pkt.session_expiry_interval_secs.is_some(), "session expiry is never dropped");
                assert!(s1c == pkt.server_reference.is_some(), "server reference is never dropped");
                if peer_max == 0 || peer_max as u64 >= (2 + fixed_props + 4 + 5 + 4 + diag_full_len(&pkt.user_properties, &pkt.reason_string)) as u64 {
                    assert!(idx == pkt.user_properties.len() && s1f == pkt.reason_string.is_some());
                }
                let lim = if peer_max == 0 { 0xFFF_FFFF } else { peer_max - 5 };
                assert!(pkt.encoded_size(lim) == rl as usize);
                vcover!(idx == 1 && pkt.user_properties.len() == 2, "second user property dropped, first kept");
                vcover!(!s1f && pkt.reason_string.is_some(), "reason string dropped by the limit");
                vcover!(idx == 0 && pkt.user_properties.len() == 2 && s11 && s1c, "diagnostics dropped, mandatory properties kept");
            }
        }
    }
}

vharness! {
    //@ props: C09
    //@ tier: quick
    //@ functions: v5::Codec::{encodev, set_max_outbound_size}, EncodeLtd for Auth, reduce_limit, encoded_size_opt_props, encode_opt_props, var_int_len_from_size
    //@ bounds: peer Maximum Packet Size: every u32 except 1..=5; request-problem-information symbolic; all 3 reason codes; optional auth method/data (0..=1 byte) - never droppable; 0..=2 user properties; optional reason string 0..=2 bytes
    //@ unwindset: utf8_is_valid=4 slice_eq=4 expect_lp=4 any_user_props2=4 encode_opt_props=4 encoded_size_opt_props=4 clone=4 diag_full_len=4 Auth=6 clear=4
    //@ assumes: strings well-formed UTF-8; peer limits 1..=5 excluded (recorded finding)
    //@ mem: 10  timeout: 1500
    //@ desc: AUTH under an outbound limit: method and data never dropped; diagnostics shortened whole; declined problem information => no diagnostics
    fn lim5_auth() unwind(6) {
        let (reason_code, num) = any_auth_reason();
        let pkt = Auth {
            reason_code,
            auth_method: vh::any_opt_str::<1>(),
            auth_data: vh::any_opt_bin::<1>(),
            reason_string: vh::any_opt_str::<2>(),
            user_properties: any_user_props2::<1>(),
        };
        let peer_max = any_peer_max();
        let npi = vk::any_bool();
        let codec = lim_codec(peer_max, npi);
        let mut pages = BytePages::default();
        let r = codec.encodev(Encoded::Packet(Packet::Auth(pkt.clone())), &mut pages);
        let fixed_props = match &pkt.auth_method { Some(s) => 3 + s.len(), None => 0 }
            + match &pkt.auth_data { Some(s) => 3 + s.len(), None => 0 };
        match r {
            Err(e) => {
                assert!(pages.len() == 0, "a failed encode appends no bytes");
                assert!(e == EncodeError::OverMaxPacketSize);
                assert!(peer_max != 0 && (1 + 1 + fixed_props + 5) as u64 > peer_max as u64);
            }
            Ok(()) => {
                let out = pages.freeze();
                let (mut rd, rl) = lim_frame(&out, 0xF0, peer_max);
                assert!(rd.u8() == num);
                let end = props_begin(&mut rd);
                let (mut s15, mut s16, mut s1f) = (false, false, false);
                let mut idx = 0;
                let mut guard = 0;
                while rd.pos < end && !rd.bad && guard < 7 {
                    match rd.u8() {
                        0x15 => { assert!(!s15); s15 = true; match &pkt.auth_method { Some(s) => assert!(rd.expect_lp(s.as_bytes())), None => assert!(false) } }
                        0x16 => { assert!(!s16); s16 = true; match &pkt.auth_data { Some(s) => assert!(rd.expect_lp(s)), None => assert!(false) } }
                        0x1F => { assert!(!s1f); s1f = true; match &pkt.reason_string { Some(s) => assert!(rd.expect_lp(s.as_bytes())), None => assert!(false) } }
                        0x26 => {
                            assert!(idx < pkt.user_properties.len());
                            assert!(rd.expect_lp(pkt.user_properties[idx].0.as_bytes()) & rd.expect_lp(pkt.user_properties[idx].1.as_bytes()));
                            idx += 1;
                        }
                        _ => assert!(false),
                    }
                    guard += 1;
                }
                assert!(rd.pos == end && rd.at_end() && !rd.bad);
                assert!(s15 == pkt.auth_method.is_some() && s16 == pkt.auth_data.is_some(), "method and data are never dropped");
                if npi {
                    assert!(idx == 0 && !s1f);
                } else if peer_max == 0 || peer_max as u64 >= (2 + fixed_props + 4 + 5 + 4 + diag_full_len(&pkt.user_properties, &pkt.reason_string)) as u64 {
                    assert!(idx == pkt.user_properties.len() && s1f == pkt.reason_string.is_some());
                }
                let lim = if peer_max == 0 { 0xFFF_FFFF } else { peer_max - 5 };
                let mut again = pkt.clone();
                if npi { again.user_properties.clear(); again.reason_string = None; }
                assert!(again.encoded_size(lim) == rl as usize);
                vcover!(idx == 1 && pkt.user_properties.len() == 2, "second user property dropped, first kept");
                vcover!(!s1f && pkt.reason_string.is_some() && !npi, "reason string dropped by the limit");
            }
        }
    }
}

vharness! {
    //@ props: C09
    //@ tier: quick
    //@ functions: v5::Codec::{encodev, set_max_outbound_size}, EncodeLtd for ConnectAck, reduce_limit, encoded_size_opt_props, encode_opt_props, var_int_len_from_size
    //@ bounds: peer Maximum Packet Size: every u32 except 1..=5; reason code symbolic; optional assigned client id (0..=1 byte), server keep-alive, session expiry - never droppable; 0..=2 user properties; optional reason string 0..=2 bytes; other properties at defaults
    //@ unwindset: utf8_is_valid=4 slice_eq=4 expect_lp=4 any_user_props2=4 encode_opt_props=4 encoded_size_opt_props=4 clone=4 diag_full_len=4 ConnectAck=8 extend_from_slice=6 varint=5
    //@ assumes: strings well-formed UTF-8; peer limits 1..=5 excluded (recorded finding)
    //@ mem: 10  timeout: 1500
    //@ desc: CONNACK under an outbound limit: only user properties / reason string are shortened; size truthful
    fn lim5_connack() unwind(10) {
        let (reason_code, num) = any_connack_reason();
        let mut pkt = ConnectAck::default();
        pkt.reason_code = reason_code;
        pkt.session_present = vk::any_bool();
        pkt.assigned_client_id = vh::any_opt_str::<1>();
        pkt.server_keepalive_sec = vh::any_opt_u16();
        pkt.session_expiry_interval_secs = vh::any_opt_u32();
        pkt.reason_string = vh::any_opt_str::<2>();
        pkt.user_properties = any_user_props2::<1>();
        let peer_max = any_peer_max();
        let codec = lim_codec(peer_max, false);
        let mut pages = BytePages::default();
        let r = codec.encodev(Encoded::Packet(Packet::ConnectAck(Box::new(pkt.clone()))), &mut pages);
        let fixed_props = match &pkt.assigned_client_id { Some(s) => 3 + s.len(), None => 0 }
            + if pkt.server_keepalive_sec.is_some() { 3 } else { 0 }
            + if pkt.session_expiry_interval_secs.is_some() { 5 } else { 0 };
        match r {
            Err(e) => {
                assert!(pages.len() == 0, "a failed encode appends no bytes");
                assert!(e == EncodeError::OverMaxPacketSize);
                assert!(peer_max != 0 && (2 + 1 + fixed_props + 5) as u64 > peer_max as u64);
            }
            Ok(()) => {
                let out = pages.freeze();
                let (mut rd, rl) = lim_frame(&out, 0x20, peer_max);
                assert!(rd.u8() == pkt.session_present as u8);
                assert!(rd.u8() == num);
                let end = props_begin(&mut rd);
                let (mut s12, mut s13, mut s11, mut s1f) = (false, false, false, false);
                let mut idx = 0;
                let mut guard = 0;
                while rd.pos < end && !rd.bad && guard < 8 {
                    match rd.u8() {
                        0x12 => { assert!(!s12); s12 = true; match &pkt.assigned_client_id { Some(s) => assert!(rd.expect_lp(s.as_bytes())), None => assert!(false) } }
                        0x13 => { assert!(!s13); s13 = true; assert!(Some(rd.u16()) == pkt.server_keepalive_sec); }
                        0x11 => { assert!(!s11); s11 = true; assert!(Some(rd.u32()) == pkt.session_expiry_interval_secs); }
                        0x1F => { assert!(!s1f); s1f = true; match &pkt.reason_string { Some(s) => assert!(rd.expect_lp(s.as_bytes())), None => assert!(false) } }
                        0x26 => {
                            assert!(idx < pkt.user_properties.len());
                            assert!(rd.expect_lp(pkt.user_properties[idx].0.as_bytes()) & rd.expect_lp(pkt.user_properties[idx].1.as_bytes()));
                            idx += 1;
                        }
                        _ => assert!(false),
                    }
                    guard += 1;
                }
                assert!(rd.pos == end && rd.at_end() && !rd.bad);
                assert!(s12 == pkt.assigned_client_id.is_some() && s13 == pkt.server_keepalive_sec.is_some() && s11 == pkt.session_expiry_interval_secs.is_some(),
                    "non-diagnostic properties are never dropped");
                if peer_max == 0 || peer_max as u64 >= (3 + fixed_props + 4 + 5 + 4 + diag_full_len(&pkt.user_properties, &pkt.reason_string)) as u64 {
                    assert!(idx == pkt.user_properties.len() && s1f == pkt.reason_string.is_some());
                }
                let lim = if peer_max == 0 { 0xFFF_FFFF } else { peer_max - 5 };
                assert!(pkt.encoded_size(lim) == rl as usize);
                vcover!(idx == 1 && pkt.user_properties.len() == 2, "second user property dropped, first kept");
                vcover!(!s1f && pkt.reason_string.is_some(), "reason string dropped by the limit");
            }
        }
    }
}

vharness! {
    //@ props: C09
    //@ tier: quick
    //@ functions: v5::Codec::{encodev, set_max_outbound_size}, EncodeLtd for PublishAck, ack_props::*
    //@ bounds: peer Maximum Packet Size 1..=5 (the values excluded everywhere else); PUBACK without diagnostics
    //@ finding: known: for a peer Maximum Packet Size of 1..=5 set_max_outbound_size keeps the value as the CONTENT budget (it only subtracts the 5 header bytes above 5), so frames of up to limit+2.. bytes are emitted
    //@ desc: documents the recorded finding for absurdly small peer limits: the 6-byte bare PUBACK frame is emitted although the peer announced a maximum of 4 or 5
    fn lim5_small_peer() unwind(6) {
        let peer_max = vk::any_u32();
        vk::assume(peer_max >= 1 && peer_max <= 5);
        let pkt = PublishAck { packet_id: vh::any_nz16(), reason_code: super::super::packet::PublishAckReason::Success, properties: Vec::new(), reason_string: None };
        let codec = lim_codec(peer_max, false);
        let mut pages = BytePages::default();
        let r = codec.encodev(Encoded::Packet(Packet::PublishAck(pkt)), &mut pages);
        match r {
            Err(e) => {
                assert!(pages.len() == 0);
                assert!(e == EncodeError::OverMaxPacketSize);
            }
            Ok(()) => {
                assert!(pages.len() as u64 <= peer_max as u64, "frame exceeds the peer's Maximum Packet Size");
            }
        }
        vcover!(r.is_err(), "rejected");
        vcover!(r.is_ok(), "emitted");
    }
}

vharness! {
    //@ props: C09
    //@ tier: quick
    //@ expect: fail
    //@ unwindset: utf8_is_valid=4 slice_eq=4 expect_lp=4 any_user_props2=4 encode_opt_props=4 encoded_size_opt_props=4 clone=4
    //@ desc: reachability twin of the lim5_* family (claims an encode under a limit never succeeds with dropped diagnostics)
    fn twin_lim5() unwind(6) {
        let pkt = PublishAck {
            packet_id: vh::any_nz16(),
            reason_code: super::super::packet::PublishAckReason::Success,
            properties: any_user_props2::<1>(),
            reason_string: None,
        };
        let peer_max = any_peer_max();
        let codec = lim_codec(peer_max, false);
        let mut pages = BytePages::default();
        let r = codec.encodev(Encoded::Packet(Packet::PublishAck(pkt.clone())), &mut pages);
        // "whenever there are two user properties the frame is at least 19 bytes" - false once the limit drops them
        assert!(!(r.is_ok() && pkt.properties.len() == 2 && pages.len() < 19));
    }
}

fn any_publish5_bare() -> Pub5 {
    let qos = vh::any_qos();
    Pub5 {
        dup: vk::any_bool(),
        retain: vk::any_bool(),
        qos,
        packet_id: if qos == QoS::AtMostOnce { None } else { NonZeroU16::new(vk::any_u16()) },
        topic: vh::any_str::<1>(),
        payload_size: vk::any_u32(),
        properties: PublishProperties::default(),
    }
}

vharness! {
    //@ props: C01 C09
    //@ tier: quick
    //@ functions: v5::Codec::encodev (Publish arm, streaming form), EncodeLtd for Publish (encoded_size, encode), utils::write_variable_length
    //@ bounds: payload_size: u32 FULL WIDTH symbolic (payload not materialised: Encoded::Publish(pkt, None)); topic 0..=1 byte; qos/id/dup/retain symbolic; no properties; no peer limit
    //@ unwindset: utf8_is_valid=3 expect_lp=3 extend_from_slice=6 clone=3 varint=5
    //@ assumes: topic well-formed UTF-8; packet legal (QoS0 <=> no id); total within the MQTT maximum (complement: rt5_publish_rl_over)
    //@ desc: v5 PUBLISH Remaining Length arithmetic across the 1/2/3/4-byte boundaries for every declared payload size: RL == 2+topic+(2)+1+payload_size, encoded per spec, header bytes follow
    //@ stubs: yes
    #[kani::stub(<Packet as EncodeLtd>::encode, stub_packet_encode5)]
    #[kani::stub(<Packet as EncodeLtd>::encoded_size, stub_packet_size5)]
    fn rt5_publish_rl() unwind(6) {
        let p = any_publish5_bare();
        vk::assume((p.qos == QoS::AtMostOnce) == p.packet_id.is_none());
        let hdr = 2 + p.topic.len() as u64 + if p.packet_id.is_some() { 2 } else { 0 } + 1;
        let total = hdr + p.payload_size as u64;
        vk::assume(total <= 268_435_455);
        let codec = Codec::new();
        let mut pages = BytePages::default();
        let r = codec.encodev(Encoded::Publish(p.clone(), None), &mut pages);
        assert!(r.is_ok());
        let out = pages.freeze();
        let mut rd = Rd::new(&out);
        let _ = rd.u8();
        let rl = rd.varint();
        assert!(!rd.bad);
        assert!(rl as u64 == total);
        assert!(rd.pos == 1 + vh::spec_varint_len(rl));
        assert!(rd.left() as u64 == hdr);
        vcover!(rl == 127, "RL 127");
        vcover!(rl == 128, "RL 128");
        vcover!(rl == 16_383, "RL 16383");
        vcover!(rl == 16_384, "RL 16384");
        vcover!(rl == 2_097_151, "RL 2097151");
        vcover!(rl == 2_097_152, "RL 2097152");
        vcover!(rl == 268_435_455, "RL 268435455");
    }
}

vharness! {
    //@ props: C01 C09
    //@ tier: quick
    //@ functions: v5::Codec::encodev (Publish arm), EncodeLtd for Publish
    //@ bounds: declared payload sizes for which 2+topic+id+1+payload_size exceeds 268435455 (the complement of rt5_publish_rl), incl. sums that do not fit u32; peer limit absent or any u32
    //@ unwindset: utf8_is_valid=3 extend_from_slice=6 clone=3
    //@ assumes: topic well-formed UTF-8; packet legal
    //@ desc: a v5 PUBLISH whose Remaining Length would exceed the MQTT maximum (incl. sizes whose sum overflows u32) is refused with OverMaxPacketSize, nothing is appended, and nothing panics
    //@ stubs: yes
    #[kani::stub(<Packet as EncodeLtd>::encode, stub_packet_encode5)]
    #[kani::stub(<Packet as EncodeLtd>::encoded_size, stub_packet_size5)]
    fn rt5_publish_rl_over() unwind(6) {
        let p = any_publish5_bare();
        vk::assume((p.qos == QoS::AtMostOnce) == p.packet_id.is_none());
        let hdr = 2 + p.topic.len() as u64 + if p.packet_id.is_some() { 2 } else { 0 } + 1;
        vk::assume(hdr + p.payload_size as u64 > 268_435_455);
        let codec = Codec::new();
        if vk::any_bool() {
            codec.set_max_outbound_size(vk::any_u32());
        }
        let mut pages = BytePages::default();
        let r = codec.encodev(Encoded::Publish(p.clone(), None), &mut pages);
        assert!(matches!(r, Err(EncodeError::OverMaxPacketSize)));
        assert!(pages.len() == 0, "a failed encode appends no bytes");
        vcover!(p.payload_size == u32::MAX, "largest declared size");
    }
}

vharness! {
    //@ props: C01
    //@ tier: thorough
    //@ stubs: yes
    //@ functions: v5::Codec::encodev (Publish arm) and v5::Codec::decode driven from FrameHeader through PublishHeader / PublishProperties (public path, whole loop)
    //@ bounds: dup/retain/qos/packet-id symbolic, topic 0..=1 byte, payload 0..=2 bytes delivered with the header; no properties
    //@ unwindset: utf8_is_valid=3 slice_eq=4 decode_variable_length_cursor=6 parse_publish_properties=3 clone=3 extend_from_slice=6 Decoder>::decode=4
    //@ assumes: topic well-formed UTF-8; non-PUBLISH body decoders stubbed (unreachable here)
    //@ mem: 16  timeout: 1500
    //@ desc: v5 PUBLISH through the PUBLIC decoder: the frame produced by encodev is consumed exactly and yields the same packet, payload and size
    #[kani::stub(super::super::decode::decode_packet, stub_decode_packet5)]
    #[kani::stub(<Packet as EncodeLtd>::encode, stub_packet_encode5)]
    #[kani::stub(<Packet as EncodeLtd>::encoded_size, stub_packet_size5)]
    fn rt5_publish_whole() unwind(9) {
        let payload = vh::any_bin::<2>();
        let qos = vh::any_qos();
        let p = Pub5 {
            dup: vk::any_bool(),
            retain: vk::any_bool(),
            qos,
            packet_id: if qos == QoS::AtMostOnce { None } else { NonZeroU16::new(vk::any_u16()) },
            topic: vh::any_str::<1>(),
            payload_size: payload.len() as u32,
            properties: PublishProperties::default(),
        };
        vk::assume((p.qos == QoS::AtMostOnce) == p.packet_id.is_none());
        let codec = Codec::new();
        let mut pages = BytePages::default();
        assert!(codec.encodev(Encoded::Publish(p.clone(), Some(payload.clone())), &mut pages).is_ok());
        let out = pages.freeze();
        let rl = out.len() as u32 - 2;
        let mut src = BytesMut::from(out);
        let d = Codec::new().decode(&mut src);
        assert!(src.len() == 0, "decode consumes exactly the frame");
        match d {
            Ok(Some(Decoded::Publish(p2, pl2, size))) => {
                assert!(p2 == p);
                assert!(pl2 == payload);
                assert!(size == rl);
            }
            _ => assert!(false),
        }
    }
}
