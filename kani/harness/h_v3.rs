//! Harnesses mounted inside `v3::codec`.
use super::*;
use crate::vk;
use ntex_bytes::{BytePages, Bytes, BytesMut, ByteString};

macro_rules! body_probe {
    ($name:ident, $fb:expr, $n:expr, $uw:expr) => {
        vharness! {
            fn $name() unwind($uw) {
                let data: [u8; $n] = vk::any_bytes::<$n>();
                let len = vk::any_len($n);
                let buf = vk::bytes_of(data, len);
                let r = decode::decode_packet(buf, $fb);
                vcover!(matches!(r, Ok(_)), "ok");
                vcover!(matches!(r, Err(_)), "err");
            }
        }
    };
}
body_probe!(p3_sub12, 0x82, 12, 14);
body_probe!(p3_connect16, 0x10, 16, 18);
