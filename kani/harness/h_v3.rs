//! Harnesses mounted inside `v3::codec` (MQTT 3.1.1): C01 round trips, C02 body decoders.
use super::*;
use crate::vh::{self, Rd};
use crate::vk;
use ntex_bytes::{Buf, ByteString, BytePages, Bytes, BytesMut};
use ntex_codec::{Decoder, Encoder};
use std::num::NonZeroU16;

#[cfg(kani)]
use crate::mvec::Vec;

/// encode through the public codec, return the produced bytes
fn enc(item: Encoded) -> Result<Bytes, crate::error::EncodeError> {
    let codec = Codec::new();
    let mut pages = BytePages::default();
    let before = pages.len();
    let r = codec.encodev(item, &mut pages);
    match r {
        Ok(()) => Ok(pages.freeze()),
        Err(e) => {
            // C09: a failed encode appends no bytes
            assert!(pages.len() == before, "failed encode left bytes behind");
            Err(e)
        }
    }
}

/// decode the frame body with the crate's per-type decoder. `first` is a CONSTANT in every
/// harness: CBMC's symbolic execution only prunes the 13-way dispatch when the first byte is a
/// literal (a byte read back from the output buffer is not). The frame layer (fixed header,
/// Remaining Length, dispatch on the first byte, exact consumption) is decided separately by the
/// fr3_* harnesses in h_v3_frame.rs for arbitrary bytes.
fn dec_body(out: &Bytes, first: u8) -> Result<Packet, crate::error::DecodeError> {
    let mut body = out.clone();
    let mut r = Rd::new(out);
    let _ = r.u8();
    let _ = r.varint();
    let _hdr = body.split_to(r.pos);
    decode::decode_packet(body, first)
}

/// fixed header check by the independent reader: first byte, truthful Remaining Length
fn rd_header<'a>(out: &'a Bytes, first: u8) -> (Rd<'a>, u32) {
    let mut r = Rd::new(out);
    assert!(r.u8() == first, "first byte (type + reserved flags)");
    let rl = r.varint();
    assert!(!r.bad);
    assert!(rl as usize == r.left(), "Remaining Length == bytes that follow");
    (r, rl)
}

// ---- acks: PUBACK PUBREC PUBREL PUBCOMP UNSUBACK ------------------------------------------------
macro_rules! rt3_ack {
    ($name:ident, $variant:ident, $first:expr) => {
        vharness! {
            fn $name() unwind(6) {
                let packet_id = vh::any_nz16();
                let pkt = Packet::$variant { packet_id };
                let out = match enc(Encoded::Packet(pkt.clone())) { Ok(o) => o, Err(_) => { assert!(false); return; } };
                let (mut r, rl) = rd_header(&out, $first);
                assert!(rl == 2);
                assert!(r.u16() == packet_id.get());
                assert!(r.at_end() && !r.bad);
                assert!(dec_body(&out, $first) == Ok(pkt));
                vcover!(packet_id.get() == 0xffff, "packet id 65535");
            }
        }
    };
}
//@ props: C01
//@ tier: quick
//@ functions: v3::Codec::encodev, encode::encode, get_encoded_size, decode::decode_packet, decode_ack
//@ bounds: packet id full width (1..=65535)
//@ desc: v3 PUBACK round trip: spec layout 0x40 0x02 id; decode == original; consumes exactly the frame
rt3_ack!(rt3_puback, PublishAck, 0x40);
//@ props: C01
//@ tier: quick
//@ functions: v3::Codec::encodev, decode::decode_packet, decode_ack
//@ bounds: packet id full width
//@ desc: v3 PUBREC round trip (0x50)
rt3_ack!(rt3_pubrec, PublishReceived, 0x50);
//@ props: C01
//@ tier: quick
//@ functions: v3::Codec::encodev, decode::decode_packet, decode_ack
//@ bounds: packet id full width
//@ desc: v3 PUBREL round trip (0x62: reserved flag bits 0010)
rt3_ack!(rt3_pubrel, PublishRelease, 0x62);
//@ props: C01
//@ tier: quick
//@ functions: v3::Codec::encodev, decode::decode_packet, decode_ack
//@ bounds: packet id full width
//@ desc: v3 PUBCOMP round trip (0x70)
rt3_ack!(rt3_pubcomp, PublishComplete, 0x70);
//@ props: C01
//@ tier: quick
//@ functions: v3::Codec::encodev, decode::decode_packet, decode_ack
//@ bounds: packet id full width
//@ desc: v3 UNSUBACK round trip (0xB0)
rt3_ack!(rt3_unsuback, UnsubscribeAck, 0xB0);

vharness! {
    //@ twin_replay: yes
    //@ props: C01
    //@ tier: quick
    //@ expect: fail
    //@ desc: reachability twin of the v3 ack round trips (claims decode never returns the packet)
    fn twin_rt3_ack() unwind(6) {
        let packet_id = vh::any_nz16();
        let pkt = Packet::PublishAck { packet_id };
        if let Ok(out) = enc(Encoded::Packet(pkt.clone())) {
            assert!(dec_body(&out, 0x40) != Ok(pkt));
        }
    }
}

// ---- PINGREQ / PINGRESP / DISCONNECT ------------------------------------------------------------
macro_rules! rt3_empty {
    ($name:ident, $variant:ident, $first:expr) => {
        vharness! {
            fn $name() unwind(6) {
                let pkt = Packet::$variant;
                let out = match enc(Encoded::Packet(pkt.clone())) { Ok(o) => o, Err(_) => { assert!(false); return; } };
                assert!(out.len() == 2 && out[0] == $first && out[1] == 0);
                assert!(dec_body(&out, $first) == Ok(pkt));
                vcover!(out.len() == 2, "two byte frame");
            }
        }
    };
}
//@ props: C01
//@ tier: quick
//@ functions: v3::Codec::encodev, encode::encode, decode::decode_packet
//@ bounds: none (no fields)
//@ desc: v3 PINGREQ is exactly C0 00 and decodes back
rt3_empty!(rt3_pingreq, PingRequest, 0xC0);
//@ props: C01
//@ tier: quick
//@ functions: v3::Codec::encodev, encode::encode, decode::decode_packet
//@ bounds: none (no fields)
//@ desc: v3 PINGRESP is exactly D0 00 and decodes back
rt3_empty!(rt3_pingresp, PingResponse, 0xD0);
//@ props: C01
//@ tier: quick
//@ functions: v3::Codec::encodev, encode::encode, decode::decode_packet
//@ bounds: none (no fields)
//@ desc: v3 DISCONNECT is exactly E0 00 and decodes back
rt3_empty!(rt3_disconnect, Disconnect, 0xE0);

// ---- CONNACK ------------------------------------------------------------------------------------
vharness! {
    //@ props: C01
    //@ tier: quick
    //@ functions: v3::Codec::encodev, encode::encode, decode::decode_packet, decode_connect_ack_packet, ConnectAckReason prim_enum conversions
    //@ bounds: session_present symbolic; all 7 return codes
    //@ desc: v3 CONNACK round trip: 0x20 0x02 flags code (code value per spec table 3.1, independent of the crate's enum discriminants)
    fn rt3_connack() unwind(6) {
        let code = vk::any_u8();
        vk::assume(code <= 6);
        let return_code = match code {
            0 => ConnectAckReason::ConnectionAccepted,
            1 => ConnectAckReason::UnacceptableProtocolVersion,
            2 => ConnectAckReason::IdentifierRejected,
            3 => ConnectAckReason::ServiceUnavailable,
            4 => ConnectAckReason::BadUserNameOrPassword,
            5 => ConnectAckReason::NotAuthorized,
            _ => ConnectAckReason::Reserved,
        };
        let session_present = vk::any_bool();
        let pkt = Packet::ConnectAck(ConnectAck { return_code, session_present });
        let out = match enc(Encoded::Packet(pkt.clone())) { Ok(o) => o, Err(_) => { assert!(false); return; } };
        let (mut r, rl) = rd_header(&out, 0x20);
        assert!(rl == 2);
        assert!(r.u8() == session_present as u8);
        assert!(r.u8() == code);
        assert!(r.at_end() && !r.bad);
        assert!(dec_body(&out, 0x20) == Ok(pkt));
        vcover!(session_present && code == 5, "session present, not authorized");
    }
}

// ---- SUBACK -------------------------------------------------------------------------------------
fn any_sub_code() -> (SubscribeReturnCode, u8) {
    let c = vk::any_u8();
    vk::assume(c <= 3);
    match c {
        0 => (SubscribeReturnCode::Success(QoS::AtMostOnce), 0x00),
        1 => (SubscribeReturnCode::Success(QoS::AtLeastOnce), 0x01),
        2 => (SubscribeReturnCode::Success(QoS::ExactlyOnce), 0x02),
        _ => (SubscribeReturnCode::Failure, 0x80),
    }
}

vharness! {
    //@ props: C01
    //@ tier: quick
    //@ functions: v3::Codec::encodev, encode::encode, decode::decode_packet, decode_subscribe_ack_packet
    //@ bounds: packet id full width; 0..=3 return codes, each of the 4 legal values
    //@ desc: v3 SUBACK round trip: 0x90 RL id codes (0,1,2,0x80 per spec 3.9.3)
    fn rt3_suback() unwind(6) {
        let packet_id = vh::any_nz16();
        let n = vk::any_len(3);
        let mut status = Vec::new();
        let mut wire = [0u8; 3];
        let mut i = 0;
        while i < n {
            let (c, w) = any_sub_code();
            status.push(c);
            wire[i] = w;
            i += 1;
        }
        let pkt = Packet::SubscribeAck { packet_id, status };
        let out = match enc(Encoded::Packet(pkt.clone())) { Ok(o) => o, Err(_) => { assert!(false); return; } };
        let (mut r, rl) = rd_header(&out, 0x90);
        assert!(rl as usize == 2 + n);
        assert!(r.u16() == packet_id.get());
        assert!(r.expect_raw(&wire[..n]));
        assert!(r.at_end() && !r.bad);
        assert!(dec_body(&out, 0x90) == Ok(pkt));
        vcover!(n == 3, "three return codes");
        vcover!(n == 0, "no return code");
    }
}

// ---- SUBSCRIBE / UNSUBSCRIBE --------------------------------------------------------------------
vharness! {
    //@ props: C01
    //@ tier: quick
    //@ functions: v3::Codec::encodev, encode::encode, get_encoded_subscribe_size, decode::decode_packet, decode_subscribe_packet
    //@ bounds: packet id full width; 0..=2 topic filters, each a well-formed UTF-8 string of 0..=2 bytes, each QoS 0..=2
    //@ unwindset: utf8_is_valid=4 slice_eq=4 decode_subscribe_packet=4 expect_lp=4
    //@ assumes: filter bytes are well-formed UTF-8 (ByteString precondition)
    //@ desc: v3 SUBSCRIBE round trip: 0x82 RL id (len filter qos)*
    fn rt3_subscribe() unwind(6) {
        let packet_id = vh::any_nz16();
        let n = vk::any_len(2);
        let mut topic_filters = Vec::new();
        let mut i = 0;
        while i < n {
            topic_filters.push((vh::any_str::<2>(), vh::any_qos()));
            i += 1;
        }
        let pkt = Packet::Subscribe { packet_id, topic_filters: topic_filters.clone() };
        let out = match enc(Encoded::Packet(pkt.clone())) { Ok(o) => o, Err(_) => { assert!(false); return; } };
        let (mut r, rl) = rd_header(&out, 0x82);
        assert!(r.u16() == packet_id.get());
        let mut i = 0;
        while i < n {
            let (f, q) = &topic_filters[i];
            assert!(r.expect_lp(f.as_bytes()));
            assert!(r.u8() == vh::qos_num(*q));
            i += 1;
        }
        assert!(r.at_end() && !r.bad);
        assert!(dec_body(&out, 0x82) == Ok(pkt));
        vcover!(n == 2, "two filters");
        vcover!(n == 2 && topic_filters[1].0.len() == 2, "second filter two bytes");
    }
}

vharness! {
    //@ props: C01
    //@ tier: quick
    //@ functions: v3::Codec::encodev, encode::encode, get_encoded_unsubscribe_size, decode::decode_packet, decode_unsubscribe_packet
    //@ bounds: packet id full width; 0..=2 topic filters, each well-formed UTF-8 of 0..=2 bytes
    //@ unwindset: utf8_is_valid=4 slice_eq=4 decode_unsubscribe_packet=4 expect_lp=4
    //@ assumes: filter bytes are well-formed UTF-8
    //@ desc: v3 UNSUBSCRIBE round trip: 0xA2 RL id (len filter)*
    fn rt3_unsubscribe() unwind(6) {
        let packet_id = vh::any_nz16();
        let n = vk::any_len(2);
        let mut topic_filters = Vec::new();
        let mut i = 0;
        while i < n {
            topic_filters.push(vh::any_str::<2>());
            i += 1;
        }
        let pkt = Packet::Unsubscribe { packet_id, topic_filters: topic_filters.clone() };
        let out = match enc(Encoded::Packet(pkt.clone())) { Ok(o) => o, Err(_) => { assert!(false); return; } };
        let (mut r, rl) = rd_header(&out, 0xA2);
        assert!(r.u16() == packet_id.get());
        let mut i = 0;
        while i < n {
            assert!(r.expect_lp(topic_filters[i].as_bytes()));
            i += 1;
        }
        assert!(r.at_end() && !r.bad);
        assert!(dec_body(&out, 0xA2) == Ok(pkt));
        vcover!(n == 2, "two filters");
    }
}

// ---- CONNECT ------------------------------------------------------------------------------------
fn any_connect3<const S: usize>() -> Connect {
    let last_will = if vk::any_bool() {
        Some(LastWill {
            qos: vh::any_qos(),
            retain: vk::any_bool(),
            topic: vh::any_str::<S>(),
            message: vh::any_bin::<S>(),
        })
    } else {
        None
    };
    Connect {
        clean_session: vk::any_bool(),
        keep_alive: vk::any_u16(),
        last_will,
        client_id: vh::any_str::<S>(),
        username: vh::any_opt_str::<S>(),
        password: vh::any_opt_bin::<S>(),
    }
}

macro_rules! rt3_connect {
    ($name:ident, $s:expr) => {
        vharness! {
            fn $name() unwind(6) {
                let c = any_connect3::<$s>();
                // 3.1.3-7/-8: a zero-length client id requires clean session (the decoder enforces it)
                vk::assume(!c.client_id.is_empty() || c.clean_session);
                let pkt = Packet::Connect(Box::new(c.clone()));
                let out = match enc(Encoded::Packet(pkt.clone())) { Ok(o) => o, Err(_) => { assert!(false); return; } };
                let (mut r, rl) = rd_header(&out, 0x10);
                assert!(r.expect_lp(b"MQTT"));
                assert!(r.u8() == 4, "protocol level 4");
                let mut flags = 0u8;
                if c.username.is_some() { flags |= 0x80; }
                if c.password.is_some() { flags |= 0x40; }
                if let Some(w) = &c.last_will {
                    flags |= 0x04;
                    if w.retain { flags |= 0x20; }
                    flags |= vh::qos_num(w.qos) << 3;
                }
                if c.clean_session { flags |= 0x02; }
                assert!(r.u8() == flags, "connect flags (bit 0 reserved = 0)");
                assert!(r.u16() == c.keep_alive);
                assert!(r.expect_lp(c.client_id.as_bytes()));
                if let Some(w) = &c.last_will {
                    assert!(r.expect_lp(w.topic.as_bytes()));
                    assert!(r.expect_lp(&w.message));
                }
                if let Some(u) = &c.username { assert!(r.expect_lp(u.as_bytes())); }
                if let Some(p) = &c.password { assert!(r.expect_lp(p)); }
                assert!(r.at_end() && !r.bad);
                assert!(dec_body(&out, 0x10) == Ok(pkt));
                vcover!(c.last_will.is_some() && c.username.is_some() && c.password.is_some(), "will + username + password");
                vcover!(c.last_will.is_none() && c.username.is_none() && c.password.is_none(), "bare connect");
                vcover!(c.client_id.len() == $s, "client id at the length bound");
            }
        }
    };
}
//@ props: C01
//@ tier: quick
//@ functions: v3::Codec::encodev, encode::encode, encode_connect, get_encoded_size, decode::decode_packet, decode_connect_packet
//@ bounds: every bool/Option/QoS symbolic, keep-alive full width; client id, will topic, will message, username, password each 0..=2 bytes
//@ unwindset: utf8_is_valid=4 slice_eq=6 expect_lp=6
//@ assumes: strings well-formed UTF-8; empty client id only with clean session (else the spec and the decoder reject the packet)
//@ mem: 8  timeout: 900
//@ desc: v3 CONNECT round trip incl. flag byte layout per spec 3.1.2.3
rt3_connect!(rt3_connect, 2);


// ---- C19 / C10: protocol-version sniffing agrees with the real CONNECT decoders -----------------
use crate::version::{ProtocolVersion, VersionCodec};

/// spec view: (fixed header length) if the fixed header is complete
fn spec_fixed_len(b: &[u8]) -> Option<usize> {
    if b.len() < 2 {
        return None;
    }
    let mut i = 1;
    while i < b.len() && i <= 4 {
        if b[i] & 128 == 0 {
            return Some(i + 1);
        }
        i += 1;
    }
    None
}

macro_rules! vr_classify {
    ($name:ident, $n:expr) => {
        vharness! {
            fn $name() unwind(8) {
                let data: [u8; $n] = vk::any_bytes::<$n>();
                let len = vk::any_len($n);
                let cut = vk::any_len($n);
                vk::assume(cut <= len);
                let vc = VersionCodec;
                let mut full = vk::bytesmut_of(data, len);
                let r = vc.decode(&mut full);                  // never panics (index arithmetic)
                assert!(full.len() == len, "version sniffing must not consume");
                // classification against the specification of the first packet
                if let Some(hl) = spec_fixed_len(&data[..len]) {
                    if data[0] != 0x10 {
                        assert!(r == Err(crate::error::DecodeError::UnsupportedPacketType));
                    } else if len >= hl + 7 {
                        let name_ok = data[hl] == 0 && data[hl + 1] == 4 && data[hl + 2] == b'M'
                            && data[hl + 3] == b'Q' && data[hl + 4] == b'T' && data[hl + 5] == b'T';
                        if !name_ok {
                            assert!(r == Err(crate::error::DecodeError::InvalidProtocol));
                        } else if data[hl + 6] == 4 {
                            assert!(r == Ok(Some(ProtocolVersion::MQTT3)));
                        } else if data[hl + 6] == 5 {
                            assert!(r == Ok(Some(ProtocolVersion::MQTT5)));
                        } else {
                            assert!(r == Err(crate::error::DecodeError::InvalidProtocol));
                        }
                    } else {
                        assert!(r == Ok(None));
                    }
                } else {
                    assert!(matches!(r, Ok(None) | Err(_)));
                }
                // fragmentation: what a prefix decided stays decided when more bytes arrive
                let mut pre = vk::bytesmut_of(data, cut);
                let rp = vc.decode(&mut pre);
                assert!(pre.len() == cut);
                match rp {
                    Ok(Some(v)) => assert!(r == Ok(Some(v))),
                    Err(e) => assert!(r == Err(e)),
                    Ok(None) => {}
                }
                vcover!(r == Ok(Some(ProtocolVersion::MQTT3)), "level 4");
                vcover!(r == Ok(Some(ProtocolVersion::MQTT5)), "level 5");
                vcover!(r == Err(crate::error::DecodeError::InvalidProtocol), "invalid protocol");
                vcover!(r == Ok(Some(ProtocolVersion::MQTT5)) && rp == Ok(None), "decided only with the later bytes");
                vcover!(r == Ok(Some(ProtocolVersion::MQTT3)) && data[1] >= 128, "two-byte remaining length");
            }
        }
    };
}
//@ props: C19 C10 C02
//@ tier: quick
//@ functions: version::VersionCodec::decode, utils::decode_variable_length(_cursor)
//@ bounds: every first-bytes buffer of 0..=12 arbitrary bytes, every prefix of it (symbolic cut)
//@ unwindset: decode_variable_length_cursor=6 spec_fixed_len=6
//@ desc: protocol sniffing: never consumes, never panics; non-CONNECT first packet is refused; name != MQTT or level not in {4,5} is refused; level 4 -> v3, level 5 -> v5; the verdict on a prefix is never revised when more bytes arrive
vr_classify!(vr_classify, 12);

vharness! {
    //@ props: C19
    //@ tier: quick
    //@ functions: version::VersionCodec::decode, v3 decode::decode_packet(CONNECT) = decode_connect_packet
    //@ bounds: CONNECT body of 0..=14 arbitrary bytes behind the header 10 <len>
    //@ unwindset: utf8_is_valid=6 decode_variable_length_cursor=6
    //@ desc: whenever sniffing says MQTT 3.1.1 and the whole frame is present, the v3 CONNECT decoder does not refuse the protocol name or level of the same bytes (the two never disagree about the version)
    fn vr_agree_v3() unwind(16) {
        let body: [u8; 14] = vk::any_bytes::<14>();
        let blen = vk::any_len(14);
        let mut data = [0u8; 16];
        data[0] = 0x10;
        data[1] = blen as u8;
        let mut i = 0;
        while i < 14 { data[2 + i] = body[i]; i += 1; }
        let mut src = vk::bytesmut_of(data, 2 + blen);
        let r = VersionCodec.decode(&mut src);
        let d = decode::decode_packet(vk::bytes_of(body, blen), 0x10);
        if r == Ok(Some(ProtocolVersion::MQTT3)) {
            assert!(d != Err(crate::error::DecodeError::InvalidProtocol));
            assert!(d != Err(crate::error::DecodeError::UnsupportedProtocolLevel));
            vcover!(d.is_ok(), "sniffed v3 and CONNECT accepted");
        }
        if d.is_ok() {
            assert!(r == Ok(Some(ProtocolVersion::MQTT3)));
        }
        vcover!(r == Ok(Some(ProtocolVersion::MQTT5)), "sniffed v5");
    }
}

vharness! {
    //@ props: C19
    //@ tier: quick
    //@ functions: version::VersionCodec::decode, v5 Connect::decode
    //@ bounds: CONNECT body = 7 ARBITRARY bytes (protocol name length, name, level: everything the two decoders look at to tell the version) followed by the shortest legal MQTT 5 tail (clean-start flags, keep-alive 0, no properties, empty client id); frame header 10 0d
    //@ unwindset: utf8_is_valid=5 decode_variable_length_cursor=6 Connect=4 slice_eq=5
    //@ mem: 10  timeout: 900
    //@ desc: whenever sniffing says MQTT 5 the v5 CONNECT decoder does not refuse the protocol name or level of the same bytes; whenever the v5 decoder accepts, sniffing said MQTT 5
    fn vr_agree_v5() unwind(15) {
        let head: [u8; 7] = vk::any_bytes::<7>();
        let mut body = [0u8; 13];
        let mut i = 0;
        while i < 7 { body[i] = head[i]; i += 1; }
        body[7] = 0x02; // clean start; keep-alive 0, property length 0, client id length 0 follow
        let mut data = [0u8; 15];
        data[0] = 0x10;
        data[1] = 13;
        let mut i = 0;
        while i < 13 { data[2 + i] = body[i]; i += 1; }
        let mut src = vk::bytesmut_of(data, 15);
        let r = VersionCodec.decode(&mut src);
        let mut b = vk::bytes_of(body, 13);
        let d = crate::v5::codec::Connect::decode(&mut b);
        if r == Ok(Some(ProtocolVersion::MQTT5)) {
            assert!(!matches!(d, Err(crate::error::DecodeError::InvalidProtocol)));
            assert!(!matches!(d, Err(crate::error::DecodeError::UnsupportedProtocolLevel)));
            assert!(d.is_ok(), "sniffed MQTT 5, minimal legal tail, but the v5 CONNECT decoder refuses");
        }
        if d.is_ok() {
            assert!(r == Ok(Some(ProtocolVersion::MQTT5)));
        }
        vcover!(d.is_ok(), "sniffed v5 and CONNECT accepted");
        vcover!(matches!(d, Err(crate::error::DecodeError::UnsupportedProtocolLevel)), "level refused");
    }
}

vharness! {
    //@ twin_replay: yes
    //@ props: C19
    //@ tier: quick
    //@ expect: fail
    //@ desc: reachability twin of vr_classify (claims sniffing never recognises a version)
    fn twin_vr_classify() unwind(8) {
        let data: [u8; 10] = vk::any_bytes::<10>();
        let mut src = vk::bytesmut_of(data, 10);
        let r = VersionCodec.decode(&mut src);
        assert!(!matches!(r, Ok(Some(_))));
    }
}

// ===================================================================================================
// C02 body layer (MQTT 3.1.1): the per-type decoders on ARBITRARY bytes.
// For each type: never panics; acceptance == the specification's well-formedness predicate
// evaluated on the raw bytes (with the decoder's documented leniencies spelled out); whatever is
// accepted is stable (re-encode, decode again, same packet).
// ===================================================================================================
use crate::vh::spec_utf8;

/// encode a decoded packet again and decode the result: must give the same packet
fn stable3(p: &Packet, first: u8) -> bool {
    match enc(Encoded::Packet(p.clone())) {
        Ok(out) => dec_body(&out, first) == Ok(p.clone()),
        Err(_) => false,
    }
}

macro_rules! bd3_ack {
    ($name:ident, $variant:ident, $first:expr) => {
        vharness! {
            fn $name() unwind(6) {
                let data: [u8; 4] = vk::any_bytes::<4>();
                let len = vk::any_len(4);
                let r = decode::decode_packet(vk::bytes_of(data, len), $first);
                // 3.4/3.5/3.6/3.7/3.11: Remaining Length is exactly 2, the packet identifier is non-zero
                let want_ok = len == 2 && (data[0] != 0 || data[1] != 0);
                assert!(r.is_ok() == want_ok);
                if let Ok(p) = &r {
                    let id = NonZeroU16::new(((data[0] as u16) << 8) | data[1] as u16).unwrap();
                    assert!(*p == Packet::$variant { packet_id: id });
                    assert!(stable3(p, $first));
                }
                vcover!(r.is_ok(), "accepted");
                vcover!(r.is_err() && len == 2, "zero packet id rejected");
                vcover!(r.is_err() && len == 3, "trailing byte rejected");
            }
        }
    };
}
//@ props: C02
//@ tier: quick
//@ functions: v3 decode::decode_packet, decode_ack, NonZeroU16::decode
//@ bounds: every body of 0..=4 arbitrary bytes
//@ desc: v3 PUBACK body: accepted iff exactly 2 bytes with a non-zero id; zero id, truncation and trailing bytes are errors; stable
bd3_ack!(bd3_puback, PublishAck, 0x40);
//@ props: C02
//@ tier: quick
//@ functions: v3 decode::decode_packet, decode_ack
//@ bounds: every body of 0..=4 arbitrary bytes
//@ desc: v3 PUBREC body (as bd3_puback)
bd3_ack!(bd3_pubrec, PublishReceived, 0x50);
//@ props: C02
//@ tier: quick
//@ functions: v3 decode::decode_packet, decode_ack
//@ bounds: every body of 0..=4 arbitrary bytes
//@ desc: v3 PUBREL body (as bd3_puback)
bd3_ack!(bd3_pubrel, PublishRelease, 0x62);
//@ props: C02
//@ tier: quick
//@ functions: v3 decode::decode_packet, decode_ack
//@ bounds: every body of 0..=4 arbitrary bytes
//@ desc: v3 PUBCOMP body (as bd3_puback)
bd3_ack!(bd3_pubcomp, PublishComplete, 0x70);
//@ props: C02
//@ tier: quick
//@ functions: v3 decode::decode_packet, decode_ack
//@ bounds: every body of 0..=4 arbitrary bytes
//@ desc: v3 UNSUBACK body (as bd3_puback)
bd3_ack!(bd3_unsuback, UnsubscribeAck, 0xB0);

vharness! {
    //@ props: C02
    //@ tier: quick
    //@ functions: v3 decode::decode_packet (all 16 first-byte values x reserved flag bits)
    //@ bounds: every first byte 0..=255 with an EMPTY body
    //@ desc: v3 dispatch on the first byte: only the exact type+flags values of the specification are recognised (reserved flag bits must match: PUBREL/SUBSCRIBE/UNSUBSCRIBE 0010, others 0000); types 0 and 15 are unsupported; body-less types accept the empty body, all others reject it
    fn bd3_dispatch() unwind(6) {
        let first = vk::any_u8();
        vk::assume(!(first >= 0x30 && first <= 0x3f)); // PUBLISH is handled by the streaming arms (fr3_*)
        let r = decode::decode_packet(Bytes::new(), first);
        let known = matches!(first, 0x10 | 0x20 | 0x40 | 0x50 | 0x62 | 0x70 | 0x82 | 0x90 | 0xA2 | 0xB0 | 0xC0 | 0xD0 | 0xE0);
        if !known {
            assert!(r == Err(crate::error::DecodeError::UnsupportedPacketType));
        }
        let bodyless = matches!(first, 0xC0 | 0xD0 | 0xE0);
        assert!(r.is_ok() == bodyless);
        vcover!(r.is_ok(), "ping/disconnect");
        vcover!(known && r.is_err(), "empty body rejected");
    }
}

/// spec value of a v3 CONNACK return code (table 3.1), independent of the crate's discriminants
fn connack3_num(r: ConnectAckReason) -> u8 {
    match r {
        ConnectAckReason::ConnectionAccepted => 0,
        ConnectAckReason::UnacceptableProtocolVersion => 1,
        ConnectAckReason::IdentifierRejected => 2,
        ConnectAckReason::ServiceUnavailable => 3,
        ConnectAckReason::BadUserNameOrPassword => 4,
        ConnectAckReason::NotAuthorized => 5,
        ConnectAckReason::Reserved => 6,
    }
}

vharness! {
    //@ props: C02
    //@ tier: quick
    //@ functions: v3 decode::decode_packet, decode_connect_ack_packet, ConnectAckFlags::from_bits, ConnectAckReason::try_from
    //@ bounds: every body of 0..=4 arbitrary bytes
    //@ desc: v3 CONNACK body: reserved acknowledge-flag bits and return codes above 6 are errors, fewer than 2 bytes is an error; stable. Leniency of the decoder (not an obligation of the property): bytes after the return code are ignored, code 6 is accepted as Reserved
    fn bd3_connack() unwind(6) {
        let data: [u8; 4] = vk::any_bytes::<4>();
        let len = vk::any_len(4);
        let r = decode::decode_packet(vk::bytes_of(data, len), 0x20);
        let want_ok = len >= 2 && data[0] & 0xFE == 0 && data[1] <= 6;
        assert!(r.is_ok() == want_ok);
        if let Ok(p) = &r {
            assert!(stable3(p, 0x20));
            if let Packet::ConnectAck(a) = p {
                assert!(a.session_present == (data[0] & 1 == 1));
                assert!(connack3_num(a.return_code) == data[1], "decoded return code differs from the byte");
            }
        }
        vcover!(r.is_ok(), "accepted");
        vcover!(len >= 2 && data[0] & 0xFE != 0, "reserved flag rejected");
        vcover!(len >= 2 && data[0] == 1 && data[1] > 6, "unknown return code rejected");
    }
}

vharness! {
    //@ props: C02
    //@ tier: quick
    //@ functions: v3 decode::decode_packet, decode_subscribe_ack_packet
    //@ bounds: every body of 0..=6 arbitrary bytes (at most 4 return codes: capacity of the list model)
    //@ unwindset: decode_subscribe_ack_packet=6
    //@ desc: v3 SUBACK body: accepted iff >= 2 bytes, non-zero id and every return code in {0,1,2,0x80}; stable
    fn bd3_suback() unwind(8) {
        let data: [u8; 6] = vk::any_bytes::<6>();
        let len = vk::any_len(6);
        let r = decode::decode_packet(vk::bytes_of(data, len), 0x90);
        let mut want_ok = len >= 2 && (data[0] != 0 || data[1] != 0);
        let mut i = 2;
        while i < len {
            if !(data[i] <= 2 || data[i] == 0x80) {
                want_ok = false;
            }
            i += 1;
        }
        assert!(r.is_ok() == want_ok);
        if let Ok(p) = &r {
            assert!(stable3(p, 0x90));
            if let Packet::SubscribeAck { packet_id, status } = p {
                assert!(packet_id.get() == ((data[0] as u16) << 8) | data[1] as u16);
                assert!(status.len() == len - 2);
                let mut i = 0;
                while i < status.len() {
                    let w = match status[i] { SubscribeReturnCode::Success(q) => vh::qos_num(q), SubscribeReturnCode::Failure => 0x80 };
                    assert!(w == data[2 + i], "decoded return code differs from the byte");
                    i += 1;
                }
            }
        }
        vcover!(r.is_ok() && len == 6, "four return codes");
        vcover!(r.is_err() && len == 4, "bad return code");
    }
}

/// spec walk of "id (len string [qos])*": Some(true) well-formed
fn spec_filters_ok(d: &[u8], with_qos: bool) -> bool {
    let len = d.len();
    if len < 2 || (d[0] == 0 && d[1] == 0) {
        return false;
    }
    let mut pos = 2;
    let mut guard = 0;
    while pos < len && guard < 6 {
        if pos + 2 > len {
            return false;
        }
        let l = ((d[pos] as usize) << 8) | d[pos + 1] as usize;
        pos += 2;
        if pos + l > len {
            return false; // inner length contradicts the Remaining Length
        }
        if !spec_utf8(&d[pos..pos + l]) {
            return false;
        }
        pos += l;
        if with_qos {
            if pos >= len {
                return false;
            }
            if d[pos] & 3 == 3 {
                return false; // QoS 3
            }
            pos += 1;
        }
        guard += 1;
    }
    pos == len
}

vharness! {
    //@ props: C02
    //@ tier: thorough
    //@ functions: v3 decode::decode_packet, decode_subscribe_packet, ByteString::decode, Bytes::decode
    //@ bounds: every body of 0..=9 arbitrary bytes (at most 3 filters)
    //@ unwindset: utf8_is_valid=8 decode_subscribe_packet=5 spec_filters_ok=5 spec_utf8=8 slice_eq=8
    //@ mem: 10  timeout: 1200
    //@ desc: v3 SUBSCRIBE body: accepted iff non-zero id and every entry is a complete length-prefixed well-formed UTF-8 filter followed by a QoS byte != 3 (upper 6 bits of the options byte are ignored by the decoder: leniency); inner lengths beyond the frame, truncation, invalid UTF-8, QoS 3, zero id are errors; stable
    fn bd3_subscribe() unwind(11) {
        let data: [u8; 9] = vk::any_bytes::<9>();
        let len = vk::any_len(9);
        let r = decode::decode_packet(vk::bytes_of(data, len), 0x82);
        let want_ok = spec_filters_ok(&data[..len], true);
        assert!(r.is_ok() == want_ok);
        if let Ok(p) = &r {
            assert!(stable3(p, 0x82));
            if let Packet::Subscribe { packet_id, topic_filters } = p {
                let mut rd = Rd::new(&data[..len]);
                assert!(rd.u16() == packet_id.get());
                let mut i = 0;
                while i < topic_filters.len() {
                    assert!(rd.expect_lp(topic_filters[i].0.as_bytes()));
                    assert!(rd.u8() & 3 == vh::qos_num(topic_filters[i].1));
                    i += 1;
                }
                assert!(rd.at_end() && !rd.bad, "decoded filters differ from the bytes");
            }
        }
        vcover!(r.is_ok() && len == 9, "accepted at the length bound");
        vcover!(r.is_err() && len >= 5 && data[2] == 0 && data[3] as usize > len - 4, "inner length beyond the frame");
    }
}

vharness! {
    //@ props: C02
    //@ tier: thorough
    //@ functions: v3 decode::decode_packet, decode_unsubscribe_packet
    //@ bounds: every body of 0..=8 arbitrary bytes (at most 3 filters)
    //@ unwindset: utf8_is_valid=8 decode_unsubscribe_packet=5 spec_filters_ok=5 spec_utf8=8 slice_eq=8
    //@ mem: 10  timeout: 1200
    //@ desc: v3 UNSUBSCRIBE body: accepted iff non-zero id and every entry is a complete length-prefixed well-formed UTF-8 filter; stable
    fn bd3_unsubscribe() unwind(10) {
        let data: [u8; 8] = vk::any_bytes::<8>();
        let len = vk::any_len(8);
        let r = decode::decode_packet(vk::bytes_of(data, len), 0xA2);
        let want_ok = spec_filters_ok(&data[..len], false);
        assert!(r.is_ok() == want_ok);
        if let Ok(p) = &r {
            assert!(stable3(p, 0xA2));
            if let Packet::Unsubscribe { packet_id, topic_filters } = p {
                let mut rd = Rd::new(&data[..len]);
                assert!(rd.u16() == packet_id.get());
                let mut i = 0;
                while i < topic_filters.len() {
                    assert!(rd.expect_lp(topic_filters[i].as_bytes()));
                    i += 1;
                }
                assert!(rd.at_end() && !rd.bad, "decoded filters differ from the bytes");
            }
        }
        vcover!(r.is_ok() && len == 8, "accepted at the length bound");
        vcover!(r.is_err() && len > 2, "rejected");
    }
}

/// reads a length-prefixed field at *pos; None if it does not fit
fn spec_lp(d: &[u8], pos: &mut usize) -> Option<(usize, usize)> {
    if *pos + 2 > d.len() {
        return None;
    }
    let l = ((d[*pos] as usize) << 8) | d[*pos + 1] as usize;
    let a = *pos + 2;
    if a + l > d.len() {
        return None;
    }
    *pos = a + l;
    Some((a, a + l))
}

macro_rules! bd3_connect {
    ($name:ident, $n:expr) => {
        vharness! {
            fn $name() unwind(18) {
                let data: [u8; $n] = vk::any_bytes::<$n>();
                let len = vk::any_len($n);
                let r = decode::decode_packet(vk::bytes_of(data, len), 0x10);
                let d = &data[..len];
                let mut want_ok = len >= 10 && d[0] == 0 && d[1] == 4 && d[2] == b'M' && d[3] == b'Q' && d[4] == b'T' && d[5] == b'T' && d[6] == 4 && d[7] & 1 == 0;
                if want_ok {
                    let flags = d[7];
                    let mut pos = 10;
                    match spec_lp(d, &mut pos) {
                        Some((a, b)) => {
                            if !spec_utf8(&d[a..b]) || (a == b && flags & 0x02 == 0) {
                                want_ok = false;
                            }
                        }
                        None => want_ok = false,
                    }
                    if want_ok && flags & 0x04 != 0 {
                        match spec_lp(d, &mut pos) {
                            Some((a, b)) => if !spec_utf8(&d[a..b]) { want_ok = false; },
                            None => want_ok = false,
                        }
                        if want_ok && spec_lp(d, &mut pos).is_none() {
                            want_ok = false;
                        }
                        if (flags >> 3) & 3 == 3 {
                            want_ok = false;
                        }
                    }
                    if want_ok && flags & 0x80 != 0 {
                        match spec_lp(d, &mut pos) {
                            Some((a, b)) => if !spec_utf8(&d[a..b]) { want_ok = false; },
                            None => want_ok = false,
                        }
                    }
                    if want_ok && flags & 0x40 != 0 && spec_lp(d, &mut pos).is_none() {
                        want_ok = false;
                    }
                }
                assert!(r.is_ok() == want_ok);
                if let Ok(p) = &r {
                    assert!(stable3(p, 0x10));
                }
                vcover!($n < 16 || (r.is_ok() && data[7] & 0x04 != 0), "accepted with a will");
                vcover!($n < 16 || (r.is_ok() && data[7] & 0xC0 == 0xC0), "accepted with username and password");
                vcover!(r.is_ok(), "accepted");
                vcover!(r == Err(crate::error::DecodeError::ConnectReservedFlagSet), "reserved flag rejected");
                vcover!(r == Err(crate::error::DecodeError::InvalidClientId), "empty client id without clean session rejected");
            }
        }
    };
}
//@ props: C02 C19
//@ tier: thorough
//@ functions: v3 decode::decode_packet, decode_connect_packet, ConnectFlags::from_bits, QoS::try_from
//@ bounds: every body of 0..=12 arbitrary bytes (the shortest accepted CONNECT has 12..13 bytes; will / username / password need 16: thorough tier)
//@ unwindset: utf8_is_valid=8 spec_utf8=8 slice_eq=8 expect_lp=8
//@ mem: 20  timeout: 900
//@ desc: v3 CONNECT body: wrong protocol name or level, reserved flag bit, truncated or over-long inner fields, invalid UTF-8 and an empty client id without clean session are errors; accepted otherwise; stable
bd3_connect!(bd3_connect_12, 12);

vharness! {
    //@ props: C02 C19
    //@ tier: quick
    //@ functions: v3 decode::decode_packet, decode_connect_packet (protocol name / level part)
    //@ bounds: CONNECT body = 7 ARBITRARY bytes (name length, name, level) followed by a minimal legal tail (clean session, keep-alive 0, one-byte client id)
    //@ unwindset: utf8_is_valid=8 slice_eq=8
    //@ desc: v3 CONNECT is accepted iff the protocol name is exactly 00 04 'MQTT' and the level is 4; a wrong name or level is an error, never a panic
    fn bd3_connect_head() unwind(10) {
        let head: [u8; 7] = vk::any_bytes::<7>();
        let mut data = [0u8; 13];
        let mut i = 0;
        while i < 7 { data[i] = head[i]; i += 1; }
        data[7] = 0x02;
        data[10] = 0;
        data[11] = 1;
        data[12] = b'a';
        let r = decode::decode_packet(vk::bytes_of(data, 13), 0x10);
        let good = head[0] == 0 && head[1] == 4 && head[2] == b'M' && head[3] == b'Q' && head[4] == b'T' && head[5] == b'T' && head[6] == 4;
        assert!(r.is_ok() == good, "CONNECT acceptance differs from: protocol name MQTT, level 4");
        vcover!(r.is_ok(), "accepted");
        vcover!(r == Err(crate::error::DecodeError::UnsupportedProtocolLevel), "level refused");
    }
}

vharness! {
    //@ props: C02 C19
    //@ tier: quick
    //@ functions: v3 decode::decode_packet, decode_connect_packet (flags, keep-alive, client id), ConnectFlags::from_bits
    //@ bounds: CONNECT body = the legal head 00 04 'MQTT' 04 followed by 0..=6 ARBITRARY bytes (flags, keep-alive, client-id length and up to one client-id byte)
    //@ unwindset: utf8_is_valid=8 spec_utf8=8 slice_eq=8 expect_lp=8
    //@ desc: v3 CONNECT fixed part behind a legal head: reserved flag bit, truncated fields, over-long client-id length, invalid UTF-8, empty client id without clean session, and flags announcing will / user name / password that do not follow are errors; accepted otherwise; never a panic
    fn bd3_connect_tail() unwind(10) {
        let tail: [u8; 6] = vk::any_bytes::<6>();
        let tl = vk::any_len(6);
        let mut data = [0u8; 13];
        data[1] = 4; data[2] = b'M'; data[3] = b'Q'; data[4] = b'T'; data[5] = b'T'; data[6] = 4;
        let mut i = 0;
        while i < 6 { data[7 + i] = tail[i]; i += 1; }
        let len = 7 + tl;
        let r = decode::decode_packet(vk::bytes_of(data, len), 0x10);
        let d = &data[..len];
        let mut want_ok = len >= 10 && d[7] & 1 == 0;
        if want_ok {
            let flags = d[7];
            let mut pos = 10;
            match spec_lp(d, &mut pos) {
                Some((a, b)) => {
                    if !spec_utf8(&d[a..b]) || (a == b && flags & 0x02 == 0) {
                        want_ok = false;
                    }
                }
                None => want_ok = false,
            }
            // will / user name / password announced by the flags must follow: with at most 13 bytes they cannot all fit
            if want_ok && flags & 0x04 != 0 {
                if spec_lp(d, &mut pos).is_none() || spec_lp(d, &mut pos).is_none() || (flags >> 3) & 3 == 3 {
                    want_ok = false;
                }
            }
            if want_ok && flags & 0x80 != 0 && spec_lp(d, &mut pos).is_none() {
                want_ok = false;
            }
            if want_ok && flags & 0x40 != 0 && spec_lp(d, &mut pos).is_none() {
                want_ok = false;
            }
        }
        assert!(r.is_ok() == want_ok);
        vcover!(r.is_ok(), "accepted");
        vcover!(r == Err(crate::error::DecodeError::ConnectReservedFlagSet), "reserved flag rejected");
        vcover!(r == Err(crate::error::DecodeError::InvalidClientId), "empty client id without clean session rejected");
    }
}
//@ props: C02 C19
//@ tier: thorough
//@ functions: v3 decode::decode_packet, decode_connect_packet, ConnectFlags::from_bits, QoS::try_from
//@ bounds: every body of 0..=16 arbitrary bytes
//@ unwindset: utf8_is_valid=8 spec_utf8=8 slice_eq=8 expect_lp=8
//@ mem: 20  timeout: 1800
//@ desc: v3 CONNECT body: wrong protocol name or level, reserved flag bit, will QoS 3, truncated or over-long inner fields, invalid UTF-8 and an empty client id without clean session are errors; accepted otherwise; stable. Leniencies of the decoder: bytes after the last field are ignored; will QoS/retain bits without the will flag are ignored
bd3_connect!(bd3_connect, 16);
