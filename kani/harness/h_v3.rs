//! Harnesses mounted inside `v3::codec` (MQTT 3.1.1): C01 round trips, C02 body decoders.
use super::*;
use crate::vh::{self, Rd};
use crate::vk;
use ntex_bytes::{Buf, ByteString, BytePages, Bytes, BytesMut};
use ntex_codec::{Decoder, Encoder};
use std::num::NonZeroU16;

#[cfg(kani)]
use crate::mvec::Vec;

/// encode through the public codec, return the produced bytes
fn enc(item: Encoded) -> Result<Bytes, crate::error::EncodeError> {
    let codec = Codec::new();
    let mut pages = BytePages::default();
    let before = pages.len();
    let r = codec.encodev(item, &mut pages);
    match r {
        Ok(()) => Ok(pages.freeze()),
        Err(e) => {
            // C09: a failed encode appends no bytes
            assert!(pages.len() == before, "failed encode left bytes behind");
            Err(e)
        }
    }
}

/// decode the frame body with the crate's per-type decoder. `first` is a CONSTANT in every
/// harness: CBMC's symbolic execution only prunes the 13-way dispatch when the first byte is a
/// literal (a byte read back from the output buffer is not). The frame layer (fixed header,
/// Remaining Length, dispatch on the first byte, exact consumption) is decided separately by the
/// fr3_* harnesses in h_v3_frame.rs for arbitrary bytes.
fn dec_body(out: &Bytes, first: u8) -> Result<Packet, crate::error::DecodeError> {
    let mut body = out.clone();
    let mut r = Rd::new(out);
    let _ = r.u8();
    let _ = r.varint();
    let _hdr = body.split_to(r.pos);
    decode::decode_packet(body, first)
}

/// fixed header check by the independent reader: first byte, truthful Remaining Length
fn rd_header<'a>(out: &'a Bytes, first: u8) -> (Rd<'a>, u32) {
    let mut r = Rd::new(out);
    assert!(r.u8() == first, "first byte (type + reserved flags)");
    let rl = r.varint();
    assert!(!r.bad);
    assert!(rl as usize == r.left(), "Remaining Length == bytes that follow");
    (r, rl)
}

// ---- acks: PUBACK PUBREC PUBREL PUBCOMP UNSUBACK ------------------------------------------------
macro_rules! rt3_ack {
    ($name:ident, $variant:ident, $first:expr) => {
        vharness! {
            fn $name() unwind(6) {
                let packet_id = vh::any_nz16();
                let pkt = Packet::$variant { packet_id };
                let out = match enc(Encoded::Packet(pkt.clone())) { Ok(o) => o, Err(_) => { assert!(false); return; } };
                let (mut r, rl) = rd_header(&out, $first);
                assert!(rl == 2);
                assert!(r.u16() == packet_id.get());
                assert!(r.at_end() && !r.bad);
                assert!(dec_body(&out, $first) == Ok(pkt));
                vcover!(packet_id.get() == 0xffff, "packet id 65535");
            }
        }
    };
}
//@ props: C01
//@ tier: quick
//@ functions: v3::Codec::encodev, encode::encode, get_encoded_size, decode::decode_packet, decode_ack
//@ bounds: packet id full width (1..=65535)
//@ desc: v3 PUBACK round trip: spec layout 0x40 0x02 id; decode == original; consumes exactly the frame
rt3_ack!(rt3_puback, PublishAck, 0x40);
//@ props: C01
//@ tier: quick
//@ functions: v3::Codec::encodev, decode::decode_packet, decode_ack
//@ bounds: packet id full width
//@ desc: v3 PUBREC round trip (0x50)
rt3_ack!(rt3_pubrec, PublishReceived, 0x50);
//@ props: C01
//@ tier: quick
//@ functions: v3::Codec::encodev, decode::decode_packet, decode_ack
//@ bounds: packet id full width
//@ desc: v3 PUBREL round trip (0x62: reserved flag bits 0010)
rt3_ack!(rt3_pubrel, PublishRelease, 0x62);
//@ props: C01
//@ tier: quick
//@ functions: v3::Codec::encodev, decode::decode_packet, decode_ack
//@ bounds: packet id full width
//@ desc: v3 PUBCOMP round trip (0x70)
rt3_ack!(rt3_pubcomp, PublishComplete, 0x70);
//@ props: C01
//@ tier: quick
//@ functions: v3::Codec::encodev, decode::decode_packet, decode_ack
//@ bounds: packet id full width
//@ desc: v3 UNSUBACK round trip (0xB0)
rt3_ack!(rt3_unsuback, UnsubscribeAck, 0xB0);

vharness! {
    //@ props: C01
    //@ tier: quick
    //@ expect: fail
    //@ desc: reachability twin of the v3 ack round trips (claims decode never returns the packet)
    fn twin_rt3_ack() unwind(6) {
        let packet_id = vh::any_nz16();
        let pkt = Packet::PublishAck { packet_id };
        if let Ok(out) = enc(Encoded::Packet(pkt.clone())) {
            assert!(dec_body(&out, 0x40) != Ok(pkt));
        }
    }
}

// ---- PINGREQ / PINGRESP / DISCONNECT ------------------------------------------------------------
macro_rules! rt3_empty {
    ($name:ident, $variant:ident, $first:expr) => {
        vharness! {
            fn $name() unwind(6) {
                let pkt = Packet::$variant;
                let out = match enc(Encoded::Packet(pkt.clone())) { Ok(o) => o, Err(_) => { assert!(false); return; } };
                assert!(out.len() == 2 && out[0] == $first && out[1] == 0);
                assert!(dec_body(&out, $first) == Ok(pkt));
                vcover!(out.len() == 2, "two byte frame");
            }
        }
    };
}
//@ props: C01
//@ tier: quick
//@ functions: v3::Codec::encodev, encode::encode, decode::decode_packet
//@ bounds: none (no fields)
//@ desc: v3 PINGREQ is exactly C0 00 and decodes back
rt3_empty!(rt3_pingreq, PingRequest, 0xC0);
//@ props: C01
//@ tier: quick
//@ functions: v3::Codec::encodev, encode::encode, decode::decode_packet
//@ bounds: none (no fields)
//@ desc: v3 PINGRESP is exactly D0 00 and decodes back
rt3_empty!(rt3_pingresp, PingResponse, 0xD0);
//@ props: C01
//@ tier: quick
//@ functions: v3::Codec::encodev, encode::encode, decode::decode_packet
//@ bounds: none (no fields)
//@ desc: v3 DISCONNECT is exactly E0 00 and decodes back
rt3_empty!(rt3_disconnect, Disconnect, 0xE0);

// ---- CONNACK ------------------------------------------------------------------------------------
vharness! {
    //@ props: C01
    //@ tier: quick
    //@ functions: v3::Codec::encodev, encode::encode, decode::decode_packet, decode_connect_ack_packet, ConnectAckReason prim_enum conversions
    //@ bounds: session_present symbolic; all 7 return codes
    //@ desc: v3 CONNACK round trip: 0x20 0x02 flags code (code value per spec table 3.1, independent of the crate's enum discriminants)
    fn rt3_connack() unwind(6) {
        let code = vk::any_u8();
        vk::assume(code <= 6);
        let return_code = match code {
            0 => ConnectAckReason::ConnectionAccepted,
            1 => ConnectAckReason::UnacceptableProtocolVersion,
            2 => ConnectAckReason::IdentifierRejected,
            3 => ConnectAckReason::ServiceUnavailable,
            4 => ConnectAckReason::BadUserNameOrPassword,
            5 => ConnectAckReason::NotAuthorized,
            _ => ConnectAckReason::Reserved,
        };
        let session_present = vk::any_bool();
        let pkt = Packet::ConnectAck(ConnectAck { return_code, session_present });
        let out = match enc(Encoded::Packet(pkt.clone())) { Ok(o) => o, Err(_) => { assert!(false); return; } };
        let (mut r, rl) = rd_header(&out, 0x20);
        assert!(rl == 2);
        assert!(r.u8() == session_present as u8);
        assert!(r.u8() == code);
        assert!(r.at_end() && !r.bad);
        assert!(dec_body(&out, 0x20) == Ok(pkt));
        vcover!(session_present && code == 5, "session present, not authorized");
    }
}

// ---- SUBACK -------------------------------------------------------------------------------------
fn any_sub_code() -> (SubscribeReturnCode, u8) {
    let c = vk::any_u8();
    vk::assume(c <= 3);
    match c {
        0 => (SubscribeReturnCode::Success(QoS::AtMostOnce), 0x00),
        1 => (SubscribeReturnCode::Success(QoS::AtLeastOnce), 0x01),
        2 => (SubscribeReturnCode::Success(QoS::ExactlyOnce), 0x02),
        _ => (SubscribeReturnCode::Failure, 0x80),
    }
}

vharness! {
    //@ props: C01
    //@ tier: quick
    //@ functions: v3::Codec::encodev, encode::encode, decode::decode_packet, decode_subscribe_ack_packet
    //@ bounds: packet id full width; 0..=3 return codes, each of the 4 legal values
    //@ desc: v3 SUBACK round trip: 0x90 RL id codes (0,1,2,0x80 per spec 3.9.3)
    fn rt3_suback() unwind(6) {
        let packet_id = vh::any_nz16();
        let n = vk::any_len(3);
        let mut status = Vec::new();
        let mut wire = [0u8; 3];
        let mut i = 0;
        while i < n {
            let (c, w) = any_sub_code();
            status.push(c);
            wire[i] = w;
            i += 1;
        }
        let pkt = Packet::SubscribeAck { packet_id, status };
        let out = match enc(Encoded::Packet(pkt.clone())) { Ok(o) => o, Err(_) => { assert!(false); return; } };
        let (mut r, rl) = rd_header(&out, 0x90);
        assert!(rl as usize == 2 + n);
        assert!(r.u16() == packet_id.get());
        assert!(r.expect_raw(&wire[..n]));
        assert!(r.at_end() && !r.bad);
        assert!(dec_body(&out, 0x90) == Ok(pkt));
        vcover!(n == 3, "three return codes");
        vcover!(n == 0, "no return code");
    }
}

// ---- SUBSCRIBE / UNSUBSCRIBE --------------------------------------------------------------------
vharness! {
    //@ props: C01
    //@ tier: quick
    //@ functions: v3::Codec::encodev, encode::encode, get_encoded_subscribe_size, decode::decode_packet, decode_subscribe_packet
    //@ bounds: packet id full width; 0..=2 topic filters, each a well-formed UTF-8 string of 0..=2 bytes, each QoS 0..=2
    //@ unwindset: utf8_is_valid=4 slice_eq=4 decode_subscribe_packet=4 expect_lp=4
    //@ assumes: filter bytes are well-formed UTF-8 (ByteString precondition)
    //@ desc: v3 SUBSCRIBE round trip: 0x82 RL id (len filter qos)*
    fn rt3_subscribe() unwind(6) {
        let packet_id = vh::any_nz16();
        let n = vk::any_len(2);
        let mut topic_filters = Vec::new();
        let mut i = 0;
        while i < n {
            topic_filters.push((vh::any_str::<2>(), vh::any_qos()));
            i += 1;
        }
        let pkt = Packet::Subscribe { packet_id, topic_filters: topic_filters.clone() };
        let out = match enc(Encoded::Packet(pkt.clone())) { Ok(o) => o, Err(_) => { assert!(false); return; } };
        let (mut r, rl) = rd_header(&out, 0x82);
        assert!(r.u16() == packet_id.get());
        let mut i = 0;
        while i < n {
            let (f, q) = &topic_filters[i];
            assert!(r.expect_lp(f.as_bytes()));
            assert!(r.u8() == vh::qos_num(*q));
            i += 1;
        }
        assert!(r.at_end() && !r.bad);
        assert!(dec_body(&out, 0x82) == Ok(pkt));
        vcover!(n == 2, "two filters");
        vcover!(n == 2 && topic_filters[1].0.len() == 2, "second filter two bytes");
    }
}

vharness! {
    //@ props: C01
    //@ tier: quick
    //@ functions: v3::Codec::encodev, encode::encode, get_encoded_unsubscribe_size, decode::decode_packet, decode_unsubscribe_packet
    //@ bounds: packet id full width; 0..=2 topic filters, each well-formed UTF-8 of 0..=2 bytes
    //@ unwindset: utf8_is_valid=4 slice_eq=4 decode_unsubscribe_packet=4 expect_lp=4
    //@ assumes: filter bytes are well-formed UTF-8
    //@ desc: v3 UNSUBSCRIBE round trip: 0xA2 RL id (len filter)*
    fn rt3_unsubscribe() unwind(6) {
        let packet_id = vh::any_nz16();
        let n = vk::any_len(2);
        let mut topic_filters = Vec::new();
        let mut i = 0;
        while i < n {
            topic_filters.push(vh::any_str::<2>());
            i += 1;
        }
        let pkt = Packet::Unsubscribe { packet_id, topic_filters: topic_filters.clone() };
        let out = match enc(Encoded::Packet(pkt.clone())) { Ok(o) => o, Err(_) => { assert!(false); return; } };
        let (mut r, rl) = rd_header(&out, 0xA2);
        assert!(r.u16() == packet_id.get());
        let mut i = 0;
        while i < n {
            assert!(r.expect_lp(topic_filters[i].as_bytes()));
            i += 1;
        }
        assert!(r.at_end() && !r.bad);
        assert!(dec_body(&out, 0xA2) == Ok(pkt));
        vcover!(n == 2, "two filters");
    }
}

// ---- CONNECT ------------------------------------------------------------------------------------
fn any_connect3<const S: usize>() -> Connect {
    let last_will = if vk::any_bool() {
        Some(LastWill {
            qos: vh::any_qos(),
            retain: vk::any_bool(),
            topic: vh::any_str::<S>(),
            message: vh::any_bin::<S>(),
        })
    } else {
        None
    };
    Connect {
        clean_session: vk::any_bool(),
        keep_alive: vk::any_u16(),
        last_will,
        client_id: vh::any_str::<S>(),
        username: vh::any_opt_str::<S>(),
        password: vh::any_opt_bin::<S>(),
    }
}

macro_rules! rt3_connect {
    ($name:ident, $s:expr) => {
        vharness! {
            fn $name() unwind(6) {
                let c = any_connect3::<$s>();
                // 3.1.3-7/-8: a zero-length client id requires clean session (the decoder enforces it)
                vk::assume(!c.client_id.is_empty() || c.clean_session);
                let pkt = Packet::Connect(Box::new(c.clone()));
                let out = match enc(Encoded::Packet(pkt.clone())) { Ok(o) => o, Err(_) => { assert!(false); return; } };
                let (mut r, rl) = rd_header(&out, 0x10);
                assert!(r.expect_lp(b"MQTT"));
                assert!(r.u8() == 4, "protocol level 4");
                let mut flags = 0u8;
                if c.username.is_some() { flags |= 0x80; }
                if c.password.is_some() { flags |= 0x40; }
                if let Some(w) = &c.last_will {
                    flags |= 0x04;
                    if w.retain { flags |= 0x20; }
                    flags |= vh::qos_num(w.qos) << 3;
                }
                if c.clean_session { flags |= 0x02; }
                assert!(r.u8() == flags, "connect flags (bit 0 reserved = 0)");
                assert!(r.u16() == c.keep_alive);
                assert!(r.expect_lp(c.client_id.as_bytes()));
                if let Some(w) = &c.last_will {
                    assert!(r.expect_lp(w.topic.as_bytes()));
                    assert!(r.expect_lp(&w.message));
                }
                if let Some(u) = &c.username { assert!(r.expect_lp(u.as_bytes())); }
                if let Some(p) = &c.password { assert!(r.expect_lp(p)); }
                assert!(r.at_end() && !r.bad);
                assert!(dec_body(&out, 0x10) == Ok(pkt));
                vcover!(c.last_will.is_some() && c.username.is_some() && c.password.is_some(), "will + username + password");
                vcover!(c.last_will.is_none() && c.username.is_none() && c.password.is_none(), "bare connect");
                vcover!(c.client_id.len() == $s, "client id at the length bound");
            }
        }
    };
}
//@ props: C01
//@ tier: quick
//@ functions: v3::Codec::encodev, encode::encode, encode_connect, get_encoded_size, decode::decode_packet, decode_connect_packet
//@ bounds: every bool/Option/QoS symbolic, keep-alive full width; client id, will topic, will message, username, password each 0..=2 bytes
//@ unwindset: utf8_is_valid=4 slice_eq=6 expect_lp=6
//@ assumes: strings well-formed UTF-8; empty client id only with clean session (else the spec and the decoder reject the packet)
//@ mem: 8  timeout: 900
//@ desc: v3 CONNECT round trip incl. flag byte layout per spec 3.1.2.3
rt3_connect!(rt3_connect, 2);


// ---- C19 / C10: protocol-version sniffing agrees with the real CONNECT decoders -----------------
use crate::version::{ProtocolVersion, VersionCodec};

/// spec view: (fixed header length) if the fixed header is complete
fn spec_fixed_len(b: &[u8]) -> Option<usize> {
    if b.len() < 2 {
        return None;
    }
    let mut i = 1;
    while i < b.len() && i <= 4 {
        if b[i] & 128 == 0 {
            return Some(i + 1);
        }
        i += 1;
    }
    None
}

macro_rules! vr_classify {
    ($name:ident, $n:expr) => {
        vharness! {
            fn $name() unwind(8) {
                let data: [u8; $n] = vk::any_bytes::<$n>();
                let len = vk::any_len($n);
                let cut = vk::any_len($n);
                vk::assume(cut <= len);
                let vc = VersionCodec;
                let mut full = vk::bytesmut_of(data, len);
                let r = vc.decode(&mut full);                  // never panics (index arithmetic)
                assert!(full.len() == len, "version sniffing must not consume");
                // classification against the specification of the first packet
                if let Some(hl) = spec_fixed_len(&data[..len]) {
                    if data[0] != 0x10 {
                        assert!(r == Err(crate::error::DecodeError::UnsupportedPacketType));
                    } else if len >= hl + 7 {
                        let name_ok = data[hl] == 0 && data[hl + 1] == 4 && data[hl + 2] == b'M'
                            && data[hl + 3] == b'Q' && data[hl + 4] == b'T' && data[hl + 5] == b'T';
                        if !name_ok {
                            assert!(r == Err(crate::error::DecodeError::InvalidProtocol));
                        } else if data[hl + 6] == 4 {
                            assert!(r == Ok(Some(ProtocolVersion::MQTT3)));
                        } else if data[hl + 6] == 5 {
                            assert!(r == Ok(Some(ProtocolVersion::MQTT5)));
                        } else {
                            assert!(r == Err(crate::error::DecodeError::InvalidProtocol));
                        }
                    } else {
                        assert!(r == Ok(None));
                    }
                } else {
                    assert!(matches!(r, Ok(None) | Err(_)));
                }
                // fragmentation: what a prefix decided stays decided when more bytes arrive
                let mut pre = vk::bytesmut_of(data, cut);
                let rp = vc.decode(&mut pre);
                assert!(pre.len() == cut);
                match rp {
                    Ok(Some(v)) => assert!(r == Ok(Some(v))),
                    Err(e) => assert!(r == Err(e)),
                    Ok(None) => {}
                }
                vcover!(r == Ok(Some(ProtocolVersion::MQTT3)), "level 4");
                vcover!(r == Ok(Some(ProtocolVersion::MQTT5)), "level 5");
                vcover!(r == Err(crate::error::DecodeError::InvalidProtocol), "invalid protocol");
                vcover!(r == Ok(Some(ProtocolVersion::MQTT5)) && rp == Ok(None), "decided only with the later bytes");
                vcover!(r == Ok(Some(ProtocolVersion::MQTT3)) && data[1] >= 128, "two-byte remaining length");
            }
        }
    };
}
//@ props: C19 C10 C02
//@ tier: quick
//@ functions: version::VersionCodec::decode, utils::decode_variable_length(_cursor)
//@ bounds: every first-bytes buffer of 0..=12 arbitrary bytes, every prefix of it (symbolic cut)
//@ unwindset: decode_variable_length_cursor=6 spec_fixed_len=6
//@ desc: protocol sniffing: never consumes, never panics; non-CONNECT first packet is refused; name != MQTT or level not in {4,5} is refused; level 4 -> v3, level 5 -> v5; the verdict on a prefix is never revised when more bytes arrive
vr_classify!(vr_classify, 12);

vharness! {
    //@ props: C19
    //@ tier: quick
    //@ functions: version::VersionCodec::decode, v3 decode::decode_packet(CONNECT) = decode_connect_packet
    //@ bounds: CONNECT body of 0..=14 arbitrary bytes behind the header 10 <len>
    //@ unwindset: utf8_is_valid=6 decode_variable_length_cursor=6
    //@ desc: whenever sniffing says MQTT 3.1.1 and the whole frame is present, the v3 CONNECT decoder does not refuse the protocol name or level of the same bytes (the two never disagree about the version)
    fn vr_agree_v3() unwind(16) {
        let body: [u8; 14] = vk::any_bytes::<14>();
        let blen = vk::any_len(14);
        let mut data = [0u8; 16];
        data[0] = 0x10;
        data[1] = blen as u8;
        let mut i = 0;
        while i < 14 { data[2 + i] = body[i]; i += 1; }
        let mut src = vk::bytesmut_of(data, 2 + blen);
        let r = VersionCodec.decode(&mut src);
        let d = decode::decode_packet(vk::bytes_of(body, blen), 0x10);
        if r == Ok(Some(ProtocolVersion::MQTT3)) {
            assert!(d != Err(crate::error::DecodeError::InvalidProtocol));
            assert!(d != Err(crate::error::DecodeError::UnsupportedProtocolLevel));
            vcover!(d.is_ok(), "sniffed v3 and CONNECT accepted");
        }
        if d.is_ok() {
            assert!(r == Ok(Some(ProtocolVersion::MQTT3)));
        }
        vcover!(r == Ok(Some(ProtocolVersion::MQTT5)), "sniffed v5");
    }
}

vharness! {
    //@ props: C19
    //@ tier: quick
    //@ functions: version::VersionCodec::decode, v5 Connect::decode
    //@ bounds: CONNECT body of 0..=14 arbitrary bytes behind the header 10 <len>
    //@ unwindset: utf8_is_valid=6 decode_variable_length_cursor=6 Connect=6
    //@ desc: whenever sniffing says MQTT 5 and the whole frame is present, the v5 CONNECT decoder does not refuse the protocol name or level; whenever the v5 decoder accepts, sniffing said MQTT 5
    fn vr_agree_v5() unwind(16) {
        let body: [u8; 14] = vk::any_bytes::<14>();
        let blen = vk::any_len(14);
        let mut data = [0u8; 16];
        data[0] = 0x10;
        data[1] = blen as u8;
        let mut i = 0;
        while i < 14 { data[2 + i] = body[i]; i += 1; }
        let mut src = vk::bytesmut_of(data, 2 + blen);
        let r = VersionCodec.decode(&mut src);
        let mut b = vk::bytes_of(body, blen);
        let d = crate::v5::codec::Connect::decode(&mut b);
        if r == Ok(Some(ProtocolVersion::MQTT5)) {
            assert!(!matches!(d, Err(crate::error::DecodeError::InvalidProtocol)));
            assert!(!matches!(d, Err(crate::error::DecodeError::UnsupportedProtocolLevel)));
            vcover!(d.is_ok(), "sniffed v5 and CONNECT accepted");
        }
        if d.is_ok() {
            assert!(r == Ok(Some(ProtocolVersion::MQTT5)));
        }
    }
}

vharness! {
    //@ props: C19
    //@ tier: quick
    //@ expect: fail
    //@ desc: reachability twin of vr_classify (claims sniffing never recognises a version)
    fn twin_vr_classify() unwind(8) {
        let data: [u8; 10] = vk::any_bytes::<10>();
        let mut src = vk::bytesmut_of(data, 10);
        let r = VersionCodec.decode(&mut src);
        assert!(!matches!(r, Ok(Some(_))));
    }
}
