//! Harness support for the connection-state slice, native replay flavour: the same functions as
//! vio_kani.rs over a REAL ntex-io object (in-memory IoTest transport inside an ntex runtime).
//! Nothing yields to the runtime while a harness body runs, so the io write task never flushes:
//! the "wire" is whatever the real `IoRef::encode` appended to the real write buffer.
#![allow(dead_code)]
pub use ntex_io::IoRef;
use ntex_io::{Io, testing::IoTest};
use ntex_service::cfg::SharedCfg;
use std::cell::RefCell;
use std::task::{Context, Poll, Waker};

pub struct IoH {
    io: RefCell<Option<Io>>,
    ioref: IoRef,
    _client: IoTest,
    log: RefCell<Vec<u8>>,
}
pub fn with_io_cfg<R: 'static>(rate: Option<(u16, u16, u32)>, f: impl FnOnce(&IoH) -> R + 'static) -> R {
    ntex::rt::System::build().name("replay").testing().build(ntex::rt::DefaultRuntime).block_on(async move {
        let (client, server) = IoTest::create();
        let mut cfg = ntex_io::IoConfig::new();
        if let Some((t, m, r)) = rate {
            cfg = cfg.set_frame_read_rate(ntex_util::time::Seconds(t), ntex_util::time::Seconds(m), r);
        }
        let io = Io::new(server, SharedCfg::new("replay").add(cfg));
        let ioref = io.get_ref();
        let h = IoH { io: RefCell::new(Some(io)), ioref, _client: client, log: RefCell::new(Vec::new()) };
        let r = f(&h);
        std::mem::forget(h);
        r
    })
}
struct YieldNow(bool);
impl std::future::Future for YieldNow {
    type Output = ();
    fn poll(mut self: std::pin::Pin<&mut Self>, cx: &mut Context<'_>) -> Poll<()> {
        if self.0 {
            Poll::Ready(())
        } else {
            self.0 = true;
            cx.waker().wake_by_ref();
            Poll::Pending
        }
    }
}
/// run `step(io, i)` for i in 0..n; between the steps control returns to the REAL ntex runtime, which
/// polls the tasks the code under test has spawned
pub fn with_io_steps(n: usize, mut step: impl FnMut(&IoH, usize) + 'static) {
    ntex::rt::System::build().name("replay").testing().build(ntex::rt::DefaultRuntime).block_on(async move {
        let (client, server) = IoTest::create();
        let io = Io::new(server, SharedCfg::new("replay"));
        let ioref = io.get_ref();
        let h = IoH { io: RefCell::new(Some(io)), ioref, _client: client, log: RefCell::new(Vec::new()) };
        let mut i = 0;
        while i < n {
            step(&h, i);
            YieldNow(false).await;
            YieldNow(false).await;
            i += 1;
        }
        std::mem::forget(h);
    })
}
pub fn with_io<R: 'static>(f: impl FnOnce(&IoH) -> R + 'static) -> R {
    ntex::rt::System::build().name("replay").testing().build(ntex::rt::DefaultRuntime).block_on(async move {
        let (client, server) = IoTest::create();
        let io = Io::new(server, SharedCfg::new("replay"));
        let ioref = io.get_ref();
        let h = IoH { io: RefCell::new(Some(io)), ioref, _client: client, log: RefCell::new(Vec::new()) };
        let r = f(&h);
        std::mem::forget(h);
        r
    })
}
impl IoH {
    pub fn ioref(&self) -> IoRef {
        self.ioref.clone()
    }
    /// the io object as the dispatcher owns it (can be taken once)
    pub fn take_boxed(&self) -> ntex_io::IoBoxed {
        self.io.borrow_mut().take().expect("io object already taken").into()
    }
    fn sync(&self) {
        let b = self.ioref.with_write_dst_buf(|b| b.freeze());
        self.log.borrow_mut().extend_from_slice(&b);
    }
    /// (offset, total length) of every complete MQTT frame in the log, and the trailing bytes that
    /// do not form a complete frame
    fn parse(&self) -> (Vec<(usize, usize)>, usize) {
        self.sync();
        let log = self.log.borrow();
        let mut frames = Vec::new();
        let mut at = 0usize;
        loop {
            if at >= log.len() {
                return (frames, 0);
            }
            // fixed header: first byte + variable byte integer
            let mut rl = 0usize;
            let mut shift = 0;
            let mut i = at + 1;
            let mut done = false;
            while i < log.len() && i < at + 5 {
                let b = log[i];
                rl |= ((b & 0x7f) as usize) << shift;
                shift += 7;
                i += 1;
                if b & 0x80 == 0 {
                    done = true;
                    break;
                }
            }
            if !done || i + rl > log.len() {
                return (frames, log.len() - at);
            }
            frames.push((at, i - at + rl));
            at = i + rl;
        }
    }
    pub fn frames(&self) -> usize {
        self.parse().0.len()
    }
    pub fn frame_first(&self, i: usize) -> u8 {
        let (f, _) = self.parse();
        self.log.borrow()[f[i].0]
    }
    pub fn frame_id(&self, i: usize) -> u16 {
        let (f, _) = self.parse();
        let log = self.log.borrow();
        let at = |k: usize| if k < f[i].1 { log[f[i].0 + k] } else { 0 };
        ((at(2) as u16) << 8) | at(3) as u16
    }
    pub fn frame_len(&self, i: usize) -> usize {
        self.parse().0[i].1
    }
    pub fn bytes_written(&self) -> usize {
        self.sync();
        self.log.borrow().len()
    }
    pub fn torn(&self) -> usize {
        self.parse().1
    }
    /// not observable on the real io object: the Kani flavour checks timer arming
    pub fn timer_starts(&self) -> usize {
        0
    }
    pub fn timer_last(&self) -> u16 {
        0
    }
    pub fn shutdown_requested(&self) -> bool {
        self.ioref.is_closed() || self.ioref.with_write_buf(|_| ()).is_err()
    }
    pub fn terminated(&self) -> bool {
        self.ioref.is_closed()
    }
    pub fn finish_shutdown(&self) {
        self.ioref.terminate()
    }
}

pub fn noop_cx() -> Context<'static> {
    Context::from_waker(Waker::noop())
}
pub fn poll_once<F: std::future::Future>(f: std::pin::Pin<&mut F>) -> Poll<F::Output> {
    let mut cx = noop_cx();
    f.poll(&mut cx)
}
pub fn leak_pin<F: std::future::Future + 'static>(f: F) -> std::pin::Pin<&'static mut F> {
    unsafe { std::pin::Pin::new_unchecked(Box::leak(Box::new(f))) }
}
