//! Harness support, native replay flavour: `any_*` pop the concrete values that Kani's concrete
//! playback printed (env VERIF_REPLAY_VALUES = "01,ff;0a00;..." one ';'-separated entry per
//! kani::any() call, bytes little-endian hex, comma separated).
//! A harness that panics with a message other than the two markers below REPRODUCES.
#![allow(dead_code, unused_macros)]
use std::cell::RefCell;
use std::collections::VecDeque;

thread_local! {
    static VALS: RefCell<VecDeque<Vec<u8>>> = RefCell::new(VecDeque::new());
}
pub const REPLAY: bool = true;
pub fn bytes_of<const N: usize>(data: [u8; N], len: usize) -> ntex_bytes::Bytes {
    ntex_bytes::Bytes::copy_from_slice(&data[..len])
}
pub fn bytesmut_of<const N: usize>(data: [u8; N], len: usize) -> ntex_bytes::BytesMut {
    ntex_bytes::BytesMut::copy_from_slice(&data[..len])
}
pub const MARK_ASSUME: &str = "VERIF_REPLAY_ASSUME_VIOLATED";
pub const MARK_EXHAUSTED: &str = "VERIF_REPLAY_VALUES_EXHAUSTED";

pub fn replay_begin(name: &str) {
    let want = std::env::var("VERIF_REPLAY_HARNESS").unwrap_or_default();
    if want != name {
        // not the harness being replayed: make the test a no-op
        panic!("VERIF_REPLAY_NOT_SELECTED {name}");
    }
    let raw = std::env::var("VERIF_REPLAY_VALUES").unwrap_or_default();
    let mut q = VecDeque::new();
    for ent in raw.split(';') {
        let ent = ent.trim();
        if ent.is_empty() {
            continue;
        }
        if ent == "-" {
            q.push_back(Vec::new());
            continue;
        }
        q.push_back(ent.split(',').map(|b| u8::from_str_radix(b.trim(), 16).unwrap()).collect());
    }
    VALS.with(|v| *v.borrow_mut() = q);
}
pub fn replay_end() {
    println!("VERIF_REPLAY_COMPLETED_WITHOUT_FAILURE");
}
fn pop(n: usize) -> Vec<u8> {
    VALS.with(|v| {
        let mut v = v.borrow_mut();
        match v.pop_front() {
            Some(x) if x.len() == n => x,
            Some(x) => panic!("{MARK_EXHAUSTED}: size mismatch want {n} got {}", x.len()),
            None => panic!("{MARK_EXHAUSTED}"),
        }
    })
}
pub fn any_u8() -> u8 {
    pop(1)[0]
}
pub fn any_bool() -> bool {
    let b = pop(1)[0];
    assume(b < 2);
    b == 1
}
pub fn any_u16() -> u16 {
    u16::from_le_bytes(pop(2).try_into().unwrap())
}
pub fn any_u32() -> u32 {
    u32::from_le_bytes(pop(4).try_into().unwrap())
}
pub fn any_u64() -> u64 {
    u64::from_le_bytes(pop(8).try_into().unwrap())
}
pub fn any_usize() -> usize {
    usize::from_le_bytes(pop(std::mem::size_of::<usize>()).try_into().unwrap())
}
pub fn any_bytes<const N: usize>() -> [u8; N] {
    // Kani's Arbitrary for [u8; N] draws the elements one by one
    let mut a = [0u8; N];
    let mut i = 0;
    while i < N {
        a[i] = pop(1)[0];
        i += 1;
    }
    a
}
pub fn assume(c: bool) {
    if !c {
        panic!("{MARK_ASSUME}");
    }
}
pub fn any_len(max: usize) -> usize {
    let l = any_usize();
    assume(l <= max);
    l
}

macro_rules! vcover {
    ($c:expr, $n:literal) => {
        let _ = $c;
    };
}

macro_rules! vharness {
    ($(#[$m:meta])* fn $name:ident() unwind($u:expr) $body:block) => {
        #[test]
        pub fn $name() {
            crate::vk::replay_begin(stringify!($name));
            $body;
            crate::vk::replay_end();
        }
    };
}
