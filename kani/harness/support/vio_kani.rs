//! Harness support for the connection-state slice, Kani flavour: an `IoRef` (model, see
//! kani/models/ntex-io) plus the probe the harnesses read the "wire" through. The replay flavour
//! (vio_replay.rs) offers the same functions over a REAL ntex-io object.
#![allow(dead_code)]
pub use ntex_io::IoRef;
use std::task::{Context, Poll, Waker};

pub struct IoH {
    io: IoRef,
}
/// run `f` with a fresh open io object
pub fn with_io<R: 'static>(f: impl FnOnce(&IoH) -> R + 'static) -> R {
    let h = IoH { io: IoRef::model_new() };
    let r = f(&h);
    // never dropped: Rc drop glue is not the subject of any assertion
    std::mem::forget(h);
    r
}
/// io object configured with a frame read rate (timeout, max_timeout, rate) or none
pub fn with_io_cfg<R: 'static>(rate: Option<(u16, u16, u32)>, f: impl FnOnce(&IoH) -> R + 'static) -> R {
    let cfg = ntex_io::IoConfig {
        frame_read_rate: rate.map(|(t, m, r)| ntex_io::FrameReadRate {
            timeout: ntex_util::time::Seconds(t),
            max_timeout: ntex_util::time::Seconds(m),
            rate: r,
        }),
        keepalive: ntex_util::time::Seconds(0),
    };
    let h = IoH { io: IoRef::model_new_cfg(cfg) };
    let r = f(&h);
    std::mem::forget(h);
    r
}
/// run `step(io, i)` for i in 0..n with the executor running between the steps: every task parked
/// by `spawn` is polled once after each step (Kani: model task table; replay: the ntex runtime)
pub fn with_io_steps(n: usize, mut step: impl FnMut(&IoH, usize) + 'static) {
    let h = IoH { io: IoRef::model_new() };
    let mut i = 0;
    while i < n {
        step(&h, i);
        if i + 1 < n {
            ntex_util::model_run_spawned();
        }
        i += 1;
    }
    std::mem::forget(h);
}
impl IoH {
    pub fn ioref(&self) -> IoRef {
        self.io.clone()
    }
    /// the io object as the dispatcher owns it
    pub fn take_boxed(&self) -> ntex_io::IoBoxed {
        ntex_io::IoBoxed(self.io.clone())
    }
    /// frames written so far (each by one successful encode call)
    pub fn frames(&self) -> usize {
        self.io.0.nlog.get()
    }
    pub fn frame_first(&self, i: usize) -> u8 {
        self.io.0.log.borrow()[i].first
    }
    /// bytes 2..4 of the frame: the packet identifier of a frame with a 1-byte Remaining Length
    /// whose variable header starts with the identifier
    pub fn frame_id(&self, i: usize) -> u16 {
        let f = self.io.0.log.borrow()[i];
        ((f.b2 as u16) << 8) | f.b3 as u16
    }
    pub fn frame_len(&self, i: usize) -> usize {
        self.io.0.log.borrow()[i].len
    }
    /// all bytes written by successful encode calls
    pub fn bytes_written(&self) -> usize {
        let mut n = 0;
        let mut i = 0;
        while i < self.frames() {
            n += self.frame_len(i);
            i += 1;
        }
        n
    }
    /// bytes left behind by failed encode calls
    pub fn torn(&self) -> usize {
        self.io.0.torn.get()
    }
    /// timers started so far and the duration of the last one (Kani flavour only)
    pub fn timer_starts(&self) -> usize {
        self.io.0.timer_starts.get()
    }
    pub fn timer_last(&self) -> u16 {
        self.io.0.timer_last.get()
    }
    /// graceful or forced shutdown has been requested
    pub fn shutdown_requested(&self) -> bool {
        self.io.0.st.get() != 0
    }
    pub fn terminated(&self) -> bool {
        self.io.0.st.get() == 2
    }
    /// the io task completes a graceful shutdown
    pub fn finish_shutdown(&self) {
        self.io.model_finish_shutdown()
    }
}

pub fn noop_cx() -> Context<'static> {
    Context::from_waker(Waker::noop())
}
/// poll a future once with a no-op waker
pub fn poll_once<F: std::future::Future>(f: std::pin::Pin<&mut F>) -> Poll<F::Output> {
    let mut cx = noop_cx();
    f.poll(&mut cx)
}
/// leak a future and pin it (its drop glue is not the subject of any assertion)
pub fn leak_pin<F: std::future::Future + 'static>(f: F) -> std::pin::Pin<&'static mut F> {
    unsafe { std::pin::Pin::new_unchecked(Box::leak(Box::new(f))) }
}
