//! Helpers shared by the harness modules: symbolic field builders and the independent
//! reader/writer for the MQTT wire layout (written from the OASIS MQTT 3.1.1 / 5.0 texts; uses
//! none of the crate's constants or helpers).
#![allow(dead_code)]
use crate::vk;
use ntex_bytes::{ByteString, Bytes};
use std::num::{NonZeroU16, NonZeroU32};

use crate::types::QoS;

/// symbolic byte string of symbolic length <= N (one fixed-size backing object)
pub fn any_bin<const N: usize>() -> Bytes {
    let d: [u8; N] = vk::any_bytes::<N>();
    let len = vk::any_len(N);
    vk::bytes_of(d, len)
}

/// symbolic well-formed UTF-8 string of symbolic byte length <= N. Well-formedness is the
/// documented precondition of `ByteString` (its constructors validate); NUL etc. are allowed.
pub fn any_str<const N: usize>() -> ByteString {
    let b = any_bin::<N>();
    match ByteString::try_from(b) {
        Ok(s) => s,
        Err(_) => {
            vk::assume(false);
            unreachable!()
        }
    }
}

pub fn any_opt_str<const N: usize>() -> Option<ByteString> {
    if vk::any_bool() { Some(any_str::<N>()) } else { None }
}
pub fn any_opt_bin<const N: usize>() -> Option<Bytes> {
    if vk::any_bool() { Some(any_bin::<N>()) } else { None }
}
pub fn any_nz16() -> NonZeroU16 {
    match NonZeroU16::new(vk::any_u16()) {
        Some(v) => v,
        None => {
            vk::assume(false);
            unreachable!()
        }
    }
}
pub fn any_nz32() -> NonZeroU32 {
    match NonZeroU32::new(vk::any_u32()) {
        Some(v) => v,
        None => {
            vk::assume(false);
            unreachable!()
        }
    }
}
pub fn any_opt_nz16() -> Option<NonZeroU16> {
    if vk::any_bool() { Some(any_nz16()) } else { None }
}
pub fn any_opt_nz32() -> Option<NonZeroU32> {
    if vk::any_bool() { Some(any_nz32()) } else { None }
}
pub fn any_opt_u32() -> Option<u32> {
    if vk::any_bool() { Some(vk::any_u32()) } else { None }
}
pub fn any_opt_u16() -> Option<u16> {
    if vk::any_bool() { Some(vk::any_u16()) } else { None }
}
pub fn any_opt_bool() -> Option<bool> {
    if vk::any_bool() { Some(vk::any_bool()) } else { None }
}
pub fn any_qos() -> QoS {
    let q = vk::any_u8();
    vk::assume(q <= 2);
    match q {
        0 => QoS::AtMostOnce,
        1 => QoS::AtLeastOnce,
        _ => QoS::ExactlyOnce,
    }
}
/// numeric value of a QoS per the specification (NOT via the crate's conversion)
pub fn qos_num(q: QoS) -> u8 {
    match q {
        QoS::AtMostOnce => 0,
        QoS::AtLeastOnce => 1,
        QoS::ExactlyOnce => 2,
    }
}

// ---------------------------------------------------------------------------------------------
/// Independent reader over wire bytes (the "spec decoder"): every accessor checks bounds and
/// sets `bad` instead of panicking, so that a harness can assert `!r.bad` once.
pub struct Rd<'a> {
    pub b: &'a [u8],
    pub pos: usize,
    pub bad: bool,
}
impl<'a> Rd<'a> {
    pub fn new(b: &'a [u8]) -> Self {
        Rd { b, pos: 0, bad: false }
    }
    pub fn left(&self) -> usize {
        self.b.len() - self.pos
    }
    pub fn u8(&mut self) -> u8 {
        if self.pos + 1 > self.b.len() {
            self.bad = true;
            return 0;
        }
        let v = self.b[self.pos];
        self.pos += 1;
        v
    }
    pub fn u16(&mut self) -> u16 {
        let h = self.u8() as u16;
        let l = self.u8() as u16;
        (h << 8) | l
    }
    pub fn u32(&mut self) -> u32 {
        let h = self.u16() as u32;
        let l = self.u16() as u32;
        (h << 16) | l
    }
    /// MQTT 1.5.5 variable byte integer (spec pseudo-code, at most four bytes)
    pub fn varint(&mut self) -> u32 {
        let mut mult: u32 = 1;
        let mut val: u32 = 0;
        let mut k = 0;
        while k < 4 {
            let e = self.u8();
            val += ((e & 127) as u32) * mult;
            if e & 128 == 0 {
                return val;
            }
            mult *= 128;
            k += 1;
        }
        self.bad = true;
        0
    }
    /// length-prefixed field (1.5.4 / 1.5.6) must equal `want` byte for byte
    pub fn expect_lp(&mut self, want: &[u8]) -> bool {
        let n = self.u16() as usize;
        if n != want.len() || self.left() < n {
            self.bad = true;
            return false;
        }
        let mut i = 0;
        let mut ok = true;
        while i < n {
            if self.b[self.pos + i] != want[i] {
                ok = false;
            }
            i += 1;
        }
        self.pos += n;
        ok
    }
    pub fn expect_raw(&mut self, want: &[u8]) -> bool {
        let n = want.len();
        if self.left() < n {
            self.bad = true;
            return false;
        }
        let mut i = 0;
        let mut ok = true;
        while i < n {
            if self.b[self.pos + i] != want[i] {
                ok = false;
            }
            i += 1;
        }
        self.pos += n;
        ok
    }
    pub fn at_end(&self) -> bool {
        self.pos == self.b.len()
    }
}

// ---------------------------------------------------------------------------------------------
/// Independent writer (the "spec encoder") into a fixed buffer.
pub const WCAP: usize = 64;
pub struct Wr {
    pub d: [u8; WCAP],
    pub n: usize,
}
impl Wr {
    pub fn new() -> Self {
        Wr { d: [0; WCAP], n: 0 }
    }
    pub fn u8(&mut self, v: u8) {
        assert!(self.n < WCAP, "spec writer capacity");
        self.d[self.n] = v;
        self.n += 1;
    }
    pub fn u16(&mut self, v: u16) {
        self.u8((v >> 8) as u8);
        self.u8((v & 0xff) as u8);
    }
    pub fn u32(&mut self, v: u32) {
        self.u16((v >> 16) as u16);
        self.u16((v & 0xffff) as u16);
    }
    pub fn varint(&mut self, mut x: u32) {
        loop {
            let mut b = (x % 128) as u8;
            x /= 128;
            if x > 0 {
                b |= 128;
            }
            self.u8(b);
            if x == 0 {
                break;
            }
        }
    }
    pub fn raw(&mut self, s: &[u8]) {
        let mut i = 0;
        while i < s.len() {
            self.u8(s[i]);
            i += 1;
        }
    }
    pub fn lp(&mut self, s: &[u8]) {
        self.u16(s.len() as u16);
        self.raw(s);
    }
    pub fn as_slice(&self) -> &[u8] {
        &self.d[..self.n]
    }
}

/// number of bytes of the variable byte integer encoding of x (spec table 1-1 / 2.4)
pub fn spec_varint_len(x: u32) -> usize {
    if x < 128 {
        1
    } else if x < 16_384 {
        2
    } else if x < 2_097_152 {
        3
    } else {
        4
    }
}

// the UTF-8 oracle lives in its own file so that kani/modelcheck can compare it with std natively
include!("utf8_oracle.rs");
