//! capacity-8 instance of the fixed-capacity Vec model (see mvec.rs), used for topic levels
pub const MVEC_CAP: usize = 8;
include!("mvec_body.rs");
