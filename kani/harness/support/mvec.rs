//! Fixed-capacity value model of `std::vec::Vec` for the packet list fields (user properties,
//! topic filters, status codes, subscription ids). Mounted over the prelude `Vec` in selected
//! woven files UNDER KANI ONLY (`#[cfg(kani)] use crate::mvec::Vec;` appended by weave).
//! Reason: std Vec's amortised growth makes allocation sizes path-dependent; after CBMC merges
//! paths the heap objects have symbolic size, go to the array theory, and its post-processing
//! exhausts memory (DESIGN.md section 2). Two capacities: `mvec::Vec` (4) for the packet list fields, `mvec8::Vec` (8) for topic levels.
//! Pushing beyond `MVEC_CAP` is an assertion failure
//! (reported), never a silent drop.
/// capacity 4 unless the harness asks for a smaller one (`//@ env: VERIF_MVEC_CAP=1`): harnesses of
/// the connection-state slice move whole acknowledgement packets around and never put more than
/// one element into a list; every move copies the inline storage
pub const MVEC_CAP: usize = match option_env!("VERIF_MVEC_CAP") {
    Some(s) => {
        let b = s.as_bytes();
        assert!(b.len() == 1 && b[0] >= b'1' && b[0] <= b'8');
        (b[0] - b'0') as usize
    }
    None => 4,
};
include!("mvec_body.rs");
