//! Fixed-capacity value model of `std::vec::Vec` for the packet list fields (user properties,
//! topic filters, status codes, subscription ids). Mounted over the prelude `Vec` in selected
//! woven files UNDER KANI ONLY (`#[cfg(kani)] use crate::mvec::Vec;` appended by weave).
//! Reason: std Vec's amortised growth makes allocation sizes path-dependent; after CBMC merges
//! paths the heap objects have symbolic size, go to the array theory, and its post-processing
//! exhausts memory (DESIGN.md section 2). Pushing beyond `MVEC_CAP` is an assertion failure
//! (reported), never a silent drop.
use std::{fmt, mem::MaybeUninit, ops::Deref};

pub const MVEC_CAP: usize = 4;

pub struct Vec<T> {
    items: [MaybeUninit<T>; MVEC_CAP],
    len: usize,
}

impl<T> Vec<T> {
    pub const fn new() -> Self {
        Vec { items: [const { MaybeUninit::uninit() }; MVEC_CAP], len: 0 }
    }
    pub fn with_capacity(_n: usize) -> Self {
        Self::new()
    }
    pub fn push(&mut self, v: T) {
        assert!(self.len < MVEC_CAP, "model capacity (MVEC_CAP) exceeded");
        self.items[self.len] = MaybeUninit::new(v);
        self.len += 1;
    }
    pub fn len(&self) -> usize {
        self.len
    }
    pub fn is_empty(&self) -> bool {
        self.len == 0
    }
    pub fn clear(&mut self) {
        // element types in the model have no drop glue (Bytes/ByteString are Copy views)
        self.len = 0;
    }
    pub fn as_slice(&self) -> &[T] {
        unsafe { std::slice::from_raw_parts(self.items.as_ptr() as *const T, self.len) }
    }
    pub fn iter(&self) -> std::slice::Iter<'_, T> {
        self.as_slice().iter()
    }
}
impl<T> Default for Vec<T> {
    fn default() -> Self {
        Self::new()
    }
}
impl<T> Deref for Vec<T> {
    type Target = [T];
    fn deref(&self) -> &[T] {
        self.as_slice()
    }
}
impl<T> AsRef<[T]> for Vec<T> {
    fn as_ref(&self) -> &[T] {
        self.as_slice()
    }
}
impl<'a, T> IntoIterator for &'a Vec<T> {
    type Item = &'a T;
    type IntoIter = std::slice::Iter<'a, T>;
    fn into_iter(self) -> Self::IntoIter {
        self.as_slice().iter()
    }
}
impl<T: Clone> Clone for Vec<T> {
    fn clone(&self) -> Self {
        let mut v = Vec::new();
        let mut i = 0;
        while i < self.len {
            v.push(self.as_slice()[i].clone());
            i += 1;
        }
        v
    }
}
impl<T: PartialEq> PartialEq for Vec<T> {
    fn eq(&self, o: &Self) -> bool {
        if self.len != o.len {
            return false;
        }
        let mut i = 0;
        while i < self.len {
            if self.as_slice()[i] != o.as_slice()[i] {
                return false;
            }
            i += 1;
        }
        true
    }
}
impl<T: Eq> Eq for Vec<T> {}
impl<T: fmt::Debug> fmt::Debug for Vec<T> {
    fn fmt(&self, f: &mut fmt::Formatter<'_>) -> fmt::Result {
        f.debug_list().entries(self.as_slice().iter()).finish()
    }
}
impl<T> FromIterator<T> for Vec<T> {
    fn from_iter<I: IntoIterator<Item = T>>(it: I) -> Self {
        let mut v = Vec::new();
        for x in it {
            v.push(x);
        }
        v
    }
}
