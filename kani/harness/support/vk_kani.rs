//! Harness support, Kani flavour: every symbolic input of every harness comes from here, so the
//! very same harness source can be re-run natively with the solver's concrete values
//! (vk_replay.rs) against the real crate.
#![allow(dead_code, unused_macros)]

#[inline(always)]
pub fn any_u8() -> u8 {
    kani::any()
}
#[inline(always)]
pub fn any_bool() -> bool {
    kani::any()
}
#[inline(always)]
pub fn any_u16() -> u16 {
    kani::any()
}
#[inline(always)]
pub fn any_u32() -> u32 {
    kani::any()
}
#[inline(always)]
pub fn any_u64() -> u64 {
    kani::any()
}
#[inline(always)]
pub fn any_usize() -> usize {
    kani::any()
}
#[inline(always)]
pub fn any_bytes<const N: usize>() -> [u8; N] {
    kani::any()
}
#[inline(always)]
pub fn assume(c: bool) {
    kani::assume(c)
}
/// usize in 0..=max
#[inline(always)]
pub fn any_len(max: usize) -> usize {
    let l: usize = kani::any();
    kani::assume(l <= max);
    l
}
pub const REPLAY: bool = false;

/// `data[..len]` as a `Bytes` view of ONE fixed-size leaked object (a symbolic-size allocation
/// would put the buffer into CBMC's array theory, whose post-processing is quadratic in the
/// number of symbolic-index accesses).
pub fn bytes_of<const N: usize>(data: [u8; N], len: usize) -> ntex_bytes::Bytes {
    let l: &'static [u8; N] = Box::leak(Box::new(data));
    ntex_bytes::Bytes::from_static(&l[..len])
}
pub fn bytesmut_of<const N: usize>(data: [u8; N], len: usize) -> ntex_bytes::BytesMut {
    ntex_bytes::BytesMut::from(bytes_of(data, len))
}

macro_rules! vcover {
    ($c:expr, $n:literal) => {
        kani::cover!($c, $n)
    };
}

/// vharness!{ [attrs] fn name() unwind(N) { body } }
macro_rules! vharness {
    ($(#[$m:meta])* fn $name:ident() unwind($u:expr) $body:block) => {
        #[kani::proof]
        #[kani::unwind($u)]
        $(#[$m])*
        pub fn $name() $body
    };
}
