// included twice by mvec.rs (capacity 4 and capacity 8); see the module doc there
use std::{fmt, mem::MaybeUninit, ops::Deref};


pub struct Vec<T> {
    items: [MaybeUninit<T>; MVEC_CAP],
    len: usize,
}

impl<T> Vec<T> {
    pub const fn new() -> Self {
        Vec { items: [const { MaybeUninit::uninit() }; MVEC_CAP], len: 0 }
    }
    pub fn with_capacity(_n: usize) -> Self {
        Self::new()
    }
    pub fn push(&mut self, v: T) {
        assert!(self.len < MVEC_CAP, "model capacity (MVEC_CAP) exceeded");
        self.items[self.len] = MaybeUninit::new(v);
        self.len += 1;
    }
    pub fn extend_from_slice(&mut self, s: &[T])
    where
        T: Clone,
    {
        let mut i = 0;
        while i < s.len() {
            self.push(s[i].clone());
            i += 1;
        }
    }
    pub fn len(&self) -> usize {
        self.len
    }
    pub fn is_empty(&self) -> bool {
        self.len == 0
    }
    pub fn clear(&mut self) {
        // element types in the model have no drop glue (Bytes/ByteString are Copy views)
        self.len = 0;
    }
    pub fn as_slice(&self) -> &[T] {
        unsafe { std::slice::from_raw_parts(self.items.as_ptr() as *const T, self.len) }
    }
    pub fn iter(&self) -> std::slice::Iter<'_, T> {
        self.as_slice().iter()
    }
}
impl<T> Default for Vec<T> {
    fn default() -> Self {
        Self::new()
    }
}
impl<T> Deref for Vec<T> {
    type Target = [T];
    fn deref(&self) -> &[T] {
        self.as_slice()
    }
}
impl<T> AsRef<[T]> for Vec<T> {
    fn as_ref(&self) -> &[T] {
        self.as_slice()
    }
}
impl<'a, T> IntoIterator for &'a Vec<T> {
    type Item = &'a T;
    type IntoIter = std::slice::Iter<'a, T>;
    fn into_iter(self) -> Self::IntoIter {
        self.as_slice().iter()
    }
}
impl<T: Clone> Clone for Vec<T> {
    fn clone(&self) -> Self {
        let mut v = Vec::new();
        let mut i = 0;
        while i < self.len {
            v.push(self.as_slice()[i].clone());
            i += 1;
        }
        v
    }
}
impl<T: PartialEq> PartialEq for Vec<T> {
    fn eq(&self, o: &Self) -> bool {
        if self.len != o.len {
            return false;
        }
        let mut i = 0;
        while i < self.len {
            if self.as_slice()[i] != o.as_slice()[i] {
                return false;
            }
            i += 1;
        }
        true
    }
}
impl<T: Eq> Eq for Vec<T> {}
impl<T: fmt::Debug> fmt::Debug for Vec<T> {
    fn fmt(&self, f: &mut fmt::Formatter<'_>) -> fmt::Result {
        f.debug_list().entries(self.as_slice().iter()).finish()
    }
}
impl<T> FromIterator<T> for Vec<T> {
    fn from_iter<I: IntoIterator<Item = T>>(it: I) -> Self {
        let mut v = Vec::new();
        for x in it {
            v.push(x);
        }
        v
    }
}
impl<T: std::hash::Hash> std::hash::Hash for Vec<T> {
    fn hash<H: std::hash::Hasher>(&self, h: &mut H) {
        self.as_slice().hash(h)
    }
}
impl<T: serde::Serialize> serde::Serialize for Vec<T> {
    fn serialize<S: serde::Serializer>(&self, s: S) -> Result<S::Ok, S::Error> {
        s.collect_seq(self.as_slice().iter())
    }
}
impl<'de, T: serde::Deserialize<'de>> serde::Deserialize<'de> for Vec<T> {
    fn deserialize<D: serde::Deserializer<'de>>(d: D) -> Result<Self, D::Error> {
        let v = <std::vec::Vec<T> as serde::Deserialize>::deserialize(d)?;
        Ok(v.into_iter().collect())
    }
}
