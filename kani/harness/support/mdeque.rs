//! Fixed-capacity value model of `std::collections::VecDeque` for the connection-state slice
//! (v*/shared.rs, io.rs DispatcherState), mounted over the std import in the WOVEN copy only.
//! std's ring buffer grows by re-allocation with data-dependent capacities; after CBMC merges
//! paths those allocations have symbolic size and the array theory blows up (DESIGN.md section 2),
//! and an arbitrary pre-state cannot be constructed through the public API. Front is slot 0;
//! `pop_front` shifts. Exceeding the capacity is an assertion failure, never silent.
#![allow(dead_code)]
pub const MDEQUE_CAP: usize = 4;

pub struct VecDeque<T> {
    pub(crate) slots: [Option<T>; MDEQUE_CAP],
    pub(crate) len: usize,
}

impl<T> VecDeque<T> {
    pub fn new() -> Self {
        VecDeque { slots: [const { None }; MDEQUE_CAP], len: 0 }
    }
    pub fn with_capacity(_n: usize) -> Self {
        Self::new()
    }
    pub fn len(&self) -> usize {
        self.len
    }
    pub fn is_empty(&self) -> bool {
        self.len == 0
    }
    pub fn push_back(&mut self, v: T) {
        assert!(self.len < MDEQUE_CAP, "MODEL CAPACITY: VecDeque model holds at most MDEQUE_CAP elements");
        self.slots[self.len] = Some(v);
        self.len += 1;
    }
    pub fn push_front(&mut self, v: T) {
        assert!(self.len < MDEQUE_CAP, "MODEL CAPACITY: VecDeque model holds at most MDEQUE_CAP elements");
        let mut i = MDEQUE_CAP - 1;
        while i > 0 {
            self.slots[i] = self.slots[i - 1].take();
            i -= 1;
        }
        self.slots[0] = Some(v);
        self.len += 1;
    }
    pub fn pop_back(&mut self) -> Option<T> {
        if self.len == 0 {
            return None;
        }
        self.len -= 1;
        self.slots[self.len].take()
    }
    pub fn back(&self) -> Option<&T> {
        if self.len == 0 { None } else { self.slots[self.len - 1].as_ref() }
    }
    pub fn back_mut(&mut self) -> Option<&mut T> {
        if self.len == 0 { None } else { self.slots[self.len - 1].as_mut() }
    }
    pub fn get_mut(&mut self, i: usize) -> Option<&mut T> {
        if i < self.len { self.slots[i].as_mut() } else { None }
    }
    pub fn insert(&mut self, at: usize, v: T) {
        assert!(self.len < MDEQUE_CAP, "MODEL CAPACITY: VecDeque model holds at most MDEQUE_CAP elements");
        assert!(at <= self.len, "index out of bounds");
        let mut i = MDEQUE_CAP - 1;
        while i > at {
            self.slots[i] = self.slots[i - 1].take();
            i -= 1;
        }
        self.slots[at] = Some(v);
        self.len += 1;
    }
    pub fn truncate(&mut self, n: usize) {
        while self.len > n {
            self.len -= 1;
            self.slots[self.len] = None;
        }
    }
    pub fn pop_front(&mut self) -> Option<T> {
        if self.len == 0 {
            return None;
        }
        let first = self.slots[0].take();
        let mut i = 1;
        while i < MDEQUE_CAP {
            self.slots[i - 1] = self.slots[i].take();
            i += 1;
        }
        self.len -= 1;
        first
    }
    pub fn front(&self) -> Option<&T> {
        if self.len == 0 { None } else { self.slots[0].as_ref() }
    }
    pub fn front_mut(&mut self) -> Option<&mut T> {
        if self.len == 0 { None } else { self.slots[0].as_mut() }
    }
    pub fn get(&self, i: usize) -> Option<&T> {
        if i < self.len { self.slots[i].as_ref() } else { None }
    }
    pub fn clear(&mut self) {
        let mut i = 0;
        while i < MDEQUE_CAP {
            self.slots[i] = None;
            i += 1;
        }
        self.len = 0;
    }
    pub fn iter(&self) -> Iter<'_, T> {
        Iter { d: self, at: 0 }
    }
    pub fn remove(&mut self, i: usize) -> Option<T> {
        if i >= self.len {
            return None;
        }
        let v = self.slots[i].take();
        let mut k = i + 1;
        while k < MDEQUE_CAP {
            self.slots[k - 1] = self.slots[k].take();
            k += 1;
        }
        self.len -= 1;
        v
    }
    pub fn retain<F: FnMut(&T) -> bool>(&mut self, mut f: F) {
        let mut kept = 0usize;
        let mut k = 0;
        while k < MDEQUE_CAP {
            if k < self.len {
                let v = self.slots[k].take();
                if let Some(v) = v {
                    if f(&v) {
                        self.slots[kept] = Some(v);
                        kept += 1;
                    }
                }
            }
            k += 1;
        }
        self.len = kept;
    }
    /// `drain(..)`: the only form the repository uses
    pub fn drain(&mut self, _r: std::ops::RangeFull) -> Drain<T> {
        let d = Drain { slots: std::mem::replace(&mut self.slots, [const { None }; MDEQUE_CAP]), len: self.len, at: 0 };
        self.len = 0;
        d
    }
}
impl<T> Default for VecDeque<T> {
    fn default() -> Self {
        Self::new()
    }
}
impl<T> std::fmt::Debug for VecDeque<T> {
    fn fmt(&self, f: &mut std::fmt::Formatter<'_>) -> std::fmt::Result {
        f.write_str("VecDeque(model)")
    }
}
impl<T> std::ops::Index<usize> for VecDeque<T> {
    type Output = T;
    fn index(&self, i: usize) -> &T {
        assert!(i < self.len, "index out of bounds");
        self.slots[i].as_ref().unwrap()
    }
}
impl<T> std::ops::IndexMut<usize> for VecDeque<T> {
    fn index_mut(&mut self, i: usize) -> &mut T {
        assert!(i < self.len, "index out of bounds");
        self.slots[i].as_mut().unwrap()
    }
}
pub struct Drain<T> {
    slots: [Option<T>; MDEQUE_CAP],
    len: usize,
    at: usize,
}
impl<T> Iterator for Drain<T> {
    type Item = T;
    fn next(&mut self) -> Option<T> {
        if self.at < self.len {
            let v = self.slots[self.at].take();
            self.at += 1;
            v
        } else {
            None
        }
    }
}

pub struct Iter<'a, T> {
    d: &'a VecDeque<T>,
    at: usize,
}
impl<'a, T> Iterator for Iter<'a, T> {
    type Item = &'a T;
    fn next(&mut self) -> Option<&'a T> {
        if self.at < self.d.len {
            let r = self.d.slots[self.at].as_ref();
            self.at += 1;
            r
        } else {
            None
        }
    }
}
