/// Independent UTF-8 well-formedness oracle (Unicode 15, D92 / Table 3-7), decode-and-check style:
/// decodes each scalar value and rejects bad lead bytes, bad continuation bytes, truncated
/// sequences, overlong forms, surrogates and values above U+10FFFF. Deliberately written
/// differently from the byte-range automaton in the ntex-bytes model; both are compared with
/// std::str::from_utf8 natively (kani/modelcheck) and by harness m_utf8_equiv.
pub fn spec_utf8(b: &[u8]) -> bool {
    let mut i = 0;
    while i < b.len() {
        let c = b[i];
        let (n, min): (usize, u32) = if c < 0x80 {
            (1, 0)
        } else if c & 0xE0 == 0xC0 {
            (2, 0x80)
        } else if c & 0xF0 == 0xE0 {
            (3, 0x800)
        } else if c & 0xF8 == 0xF0 {
            (4, 0x1_0000)
        } else {
            return false;
        };
        if i + n > b.len() {
            return false;
        }
        let mut cp: u32 = match n {
            1 => c as u32,
            2 => (c & 0x1F) as u32,
            3 => (c & 0x0F) as u32,
            _ => (c & 0x07) as u32,
        };
        let mut k = 1;
        while k < n {
            let x = b[i + k];
            if x & 0xC0 != 0x80 {
                return false;
            }
            cp = (cp << 6) | (x & 0x3F) as u32;
            k += 1;
        }
        if n > 1 && cp < min {
            return false;
        }
        if cp >= 0xD800 && cp <= 0xDFFF {
            return false;
        }
        if cp > 0x10_FFFF {
            return false;
        }
        i += n;
    }
    true
}
