//! Harnesses mounted inside `v5::codec` (MQTT 5.0): C01 round trips per packet kind.
//! The wire layout is checked by an independent reader written from the OASIS MQTT 5.0 text
//! (property identifiers and reason code values are literals from the specification tables, not
//! the crate's constants; properties are accepted in ANY order as the specification allows).
use super::*;
use crate::vh::{self, Rd};
use crate::vk;
use ntex_bytes::{Buf, ByteString, BytePages, Bytes, BytesMut};
use ntex_codec::{Decoder, Encoder};
use std::num::{NonZeroU16, NonZeroU32};

#[cfg(kani)]
use crate::mvec::Vec;

pub(crate) fn enc5(codec: &Codec, item: Encoded) -> Result<Bytes, crate::error::EncodeError> {
    let mut pages = BytePages::default();
    match codec.encodev(item, &mut pages) {
        Ok(()) => Ok(pages.freeze()),
        Err(e) => {
            assert!(pages.len() == 0, "a failed encode appends no bytes");
            Err(e)
        }
    }
}

/// body decode with a CONSTANT first byte (see h_v3.rs::dec_body for why)
pub(crate) fn dec_body5(out: &Bytes, first: u8) -> Result<Packet, crate::error::DecodeError> {
    let mut body = out.clone();
    let mut r = Rd::new(out);
    let _ = r.u8();
    let _ = r.varint();
    let _hdr = body.split_to(r.pos);
    decode::decode_packet(body, first)
}

pub(crate) fn rd_header5<'a>(out: &'a Bytes, first: u8) -> (Rd<'a>, u32) {
    let mut r = Rd::new(out);
    assert!(r.u8() == first, "first byte (type + reserved flags)");
    let rl = r.varint();
    assert!(!r.bad);
    assert!(rl as usize == r.left(), "Remaining Length == bytes that follow");
    (r, rl)
}

pub(crate) fn any_user_props<const K: usize, const S: usize>() -> UserProperties {
    let n = vk::any_len(K);
    let mut v = Vec::new();
    let mut i = 0;
    while i < n {
        v.push((vh::any_str::<S>(), vh::any_str::<S>()));
        i += 1;
    }
    v
}

/// start of a property section: returns the absolute end offset
pub(crate) fn props_begin(r: &mut Rd<'_>) -> usize {
    let n = r.varint() as usize;
    if n > r.left() {
        r.bad = true;
        return r.pos;
    }
    r.pos + n
}

/// reads one user property (id 0x26 already consumed) and compares it with `ups[*idx]`
pub(crate) fn expect_user_prop(r: &mut Rd<'_>, ups: &[UserProperty], idx: &mut usize) -> bool {
    if *idx >= ups.len() {
        r.bad = true;
        return false;
    }
    let ok = r.expect_lp(ups[*idx].0.as_bytes()) & r.expect_lp(ups[*idx].1.as_bytes());
    *idx += 1;
    ok
}

// ---- reason code tables from the specification (name -> value) ----------------------------------
pub(crate) fn any_puback_reason() -> (PublishAckReason, u8) {
    let k = vk::any_u8();
    vk::assume(k < 9);
    match k {
        0 => (PublishAckReason::Success, 0x00),
        1 => (PublishAckReason::NoMatchingSubscribers, 0x10),
        2 => (PublishAckReason::UnspecifiedError, 0x80),
        3 => (PublishAckReason::ImplementationSpecificError, 0x83),
        4 => (PublishAckReason::NotAuthorized, 0x87),
        5 => (PublishAckReason::TopicNameInvalid, 0x90),
        6 => (PublishAckReason::PacketIdentifierInUse, 0x91),
        7 => (PublishAckReason::QuotaExceeded, 0x97),
        _ => (PublishAckReason::PayloadFormatInvalid, 0x99),
    }
}
pub(crate) fn any_puback2_reason() -> (PublishAck2Reason, u8) {
    if vk::any_bool() { (PublishAck2Reason::Success, 0x00) } else { (PublishAck2Reason::PacketIdNotFound, 0x92) }
}
pub(crate) fn any_suback_reason() -> (SubscribeAckReason, u8) {
    let k = vk::any_u8();
    vk::assume(k < 12);
    match k {
        0 => (SubscribeAckReason::GrantedQos0, 0x00),
        1 => (SubscribeAckReason::GrantedQos1, 0x01),
        2 => (SubscribeAckReason::GrantedQos2, 0x02),
        3 => (SubscribeAckReason::UnspecifiedError, 0x80),
        4 => (SubscribeAckReason::ImplementationSpecificError, 0x83),
        5 => (SubscribeAckReason::NotAuthorized, 0x87),
        6 => (SubscribeAckReason::TopicFilterInvalid, 0x8F),
        7 => (SubscribeAckReason::PacketIdentifierInUse, 0x91),
        8 => (SubscribeAckReason::QuotaExceeded, 0x97),
        9 => (SubscribeAckReason::SharedSubscriptionNotSupported, 0x9E),
        10 => (SubscribeAckReason::SubscriptionIdentifiersNotSupported, 0xA1),
        _ => (SubscribeAckReason::WildcardSubscriptionsNotSupported, 0xA2),
    }
}
pub(crate) fn any_unsuback_reason() -> (UnsubscribeAckReason, u8) {
    let k = vk::any_u8();
    vk::assume(k < 7);
    match k {
        0 => (UnsubscribeAckReason::Success, 0x00),
        1 => (UnsubscribeAckReason::NoSubscriptionExisted, 0x11),
        2 => (UnsubscribeAckReason::UnspecifiedError, 0x80),
        3 => (UnsubscribeAckReason::ImplementationSpecificError, 0x83),
        4 => (UnsubscribeAckReason::NotAuthorized, 0x87),
        5 => (UnsubscribeAckReason::TopicFilterInvalid, 0x8F),
        _ => (UnsubscribeAckReason::PacketIdentifierInUse, 0x91),
    }
}
pub(crate) fn any_auth_reason() -> (AuthReasonCode, u8) {
    let k = vk::any_u8();
    vk::assume(k < 3);
    match k {
        0 => (AuthReasonCode::Success, 0x00),
        1 => (AuthReasonCode::ContinueAuth, 0x18),
        _ => (AuthReasonCode::ReAuth, 0x19),
    }
}
pub(crate) fn any_disconnect_reason() -> (DisconnectReasonCode, u8) {
    use DisconnectReasonCode::*;
    let k = vk::any_u8();
    vk::assume(k < 30);
    match k {
        0 => (NormalDisconnection, 0x00),
        1 => (DisconnectWithWillMessage, 0x04),
        2 => (UnspecifiedError, 0x80),
        3 => (MalformedPacket, 0x81),
        4 => (ProtocolError, 0x82),
        5 => (ImplementationSpecificError, 0x83),
        6 => (NotAuthorized, 0x87),
        7 => (ServerBusy, 0x89),
        8 => (ServerShuttingDown, 0x8B),
        9 => (BadAuthenticationMethod, 0x8C),
        10 => (KeepAliveTimeout, 0x8D),
        11 => (SessionTakenOver, 0x8E),
        12 => (TopicFilterInvalid, 0x8F),
        13 => (TopicNameInvalid, 0x90),
        14 => (ReceiveMaximumExceeded, 0x93),
        15 => (TopicAliasInvalid, 0x94),
        16 => (PacketTooLarge, 0x95),
        17 => (MessageRateTooHigh, 0x96),
        18 => (QuotaExceeded, 0x97),
        19 => (AdministrativeAction, 0x98),
        20 => (PayloadFormatInvalid, 0x99),
        21 => (RetainNotSupported, 0x9A),
        22 => (QosNotSupported, 0x9B),
        23 => (UseAnotherServer, 0x9C),
        24 => (ServerMoved, 0x9D),
        25 => (SharedSubscriptionNotSupported, 0x9E),
        26 => (ConnectionRateExceeded, 0x9F),
        27 => (MaximumConnectTime, 0xA0),
        28 => (SubscriptionIdentifiersNotSupported, 0xA1),
        _ => (WildcardSubscriptionsNotSupported, 0xA2),
    }
}
pub(crate) fn any_connack_reason() -> (ConnectAckReason, u8) {
    use ConnectAckReason::*;
    let k = vk::any_u8();
    vk::assume(k < 22);
    match k {
        0 => (Success, 0x00),
        1 => (UnspecifiedError, 0x80),
        2 => (MalformedPacket, 0x81),
        3 => (ProtocolError, 0x82),
        4 => (ImplementationSpecificError, 0x83),
        5 => (UnsupportedProtocolVersion, 0x84),
        6 => (ClientIdentifierNotValid, 0x85),
        7 => (BadUserNameOrPassword, 0x86),
        8 => (NotAuthorized, 0x87),
        9 => (ServerUnavailable, 0x88),
        10 => (ServerBusy, 0x89),
        11 => (Banned, 0x8A),
        12 => (BadAuthenticationMethod, 0x8C),
        13 => (TopicNameInvalid, 0x90),
        14 => (PacketTooLarge, 0x95),
        15 => (QuotaExceeded, 0x97),
        16 => (PayloadFormatInvalid, 0x99),
        17 => (RetainNotSupported, 0x9A),
        18 => (QosNotSupported, 0x9B),
        19 => (UseAnotherServer, 0x9C),
        20 => (ServerMoved, 0x9D),
        _ => (ConnectionRateExceeded, 0x9F),
    }
}

// ---- the ack family: PUBACK PUBREC (PublishAck), PUBREL PUBCOMP (PublishAck2) -------------------
/// spec reader for "packet id, [reason code, [properties: user property*, reason string?]]"
/// (3.4.2 / 3.5.2 / 3.6.2 / 3.7.2): absent reason = 0x00, absent property length = no properties
pub(crate) fn spec_check_ack(r: &mut Rd<'_>, id: u16, reason: u8, ups: &[UserProperty], rs: &Option<ByteString>) -> bool {
    let mut ok = r.u16() == id;
    if r.left() == 0 {
        return ok && reason == 0 && ups.is_empty() && rs.is_none();
    }
    ok &= r.u8() == reason;
    if r.left() == 0 {
        return ok && ups.is_empty() && rs.is_none();
    }
    ok &= spec_check_diag_props(r, ups, rs);
    ok
}

/// property section that may hold only User Property (0x26, repeatable, order preserved) and
/// Reason String (0x1F, at most once), in any relative order
pub(crate) fn spec_check_diag_props(r: &mut Rd<'_>, ups: &[UserProperty], rs: &Option<ByteString>) -> bool {
    let end = props_begin(r);
    let mut ok = true;
    let mut seen_rs = false;
    let mut idx = 0;
    let mut guard = 0;
    while r.pos < end && !r.bad && guard < 8 {
        match r.u8() {
            0x26 => ok &= expect_user_prop(r, ups, &mut idx),
            0x1F => {
                ok &= !seen_rs;
                seen_rs = true;
                match rs {
                    Some(s) => ok &= r.expect_lp(s.as_bytes()),
                    None => ok = false,
                }
            }
            _ => ok = false,
        }
        guard += 1;
    }
    ok && r.pos == end && idx == ups.len() && seen_rs == rs.is_some()
}

macro_rules! rt5_ack {
    ($name:ident, $variant:ident, $ty:ident, $reason:ident, $first:expr) => {
        vharness! {
            fn $name() unwind(5) {
                let (reason_code, num) = $reason();
                let pkt = $ty {
                    packet_id: vh::any_nz16(),
                    reason_code,
                    properties: any_user_props::<1, 1>(),
                    reason_string: vh::any_opt_str::<1>(),
                };
                let codec = Codec::new();
                let out = match enc5(&codec, Encoded::Packet(Packet::$variant(pkt.clone()))) { Ok(o) => o, Err(_) => { assert!(false); return; } };
                let (mut r, _rl) = rd_header5(&out, $first);
                assert!(spec_check_ack(&mut r, pkt.packet_id.get(), num, &pkt.properties, &pkt.reason_string));
                assert!(r.at_end() && !r.bad);
                assert!(dec_body5(&out, $first) == Ok(Packet::$variant(pkt.clone())));
                vcover!(pkt.properties.len() == 1 && pkt.reason_string.is_some(), "user property and reason string");
                vcover!(pkt.properties.is_empty() && pkt.reason_string.is_none() && num != 0, "bare negative ack");
            }
        }
    };
}
//@ props: C01
//@ tier: quick
//@ functions: v5::Codec::encodev, EncodeLtd for Packet/PublishAck, ack_props::{encoded_size,encode,decode}, encode_opt_props, encoded_size_opt_props, var_int_len_from_size, decode::decode_packet, PublishAck::decode
//@ bounds: packet id full width; all 9 reason codes; 0..=1 user property with 0..=1-byte key/value; optional reason string of 0..=1 byte
//@ unwindset: utf8_is_valid=3 slice_eq=3 expect_lp=3 ack_props::decode=4 spec_check_diag_props=4 any_user_props=3 encode_opt_props=3 encoded_size_opt_props=3 clone=3
//@ assumes: strings well-formed UTF-8
//@ desc: v5 PUBACK round trip; reason code values and property ids 0x26/0x1F checked against the specification tables by the independent reader
rt5_ack!(rt5_puback, PublishAck, PublishAck, any_puback_reason, 0x40);
//@ props: C01
//@ tier: quick
//@ functions: v5::Codec::encodev, EncodeLtd for PublishAck, ack_props::*, decode::decode_packet, PublishAck::decode
//@ bounds: as rt5_puback
//@ unwindset: utf8_is_valid=3 slice_eq=3 expect_lp=3 ack_props::decode=4 spec_check_diag_props=4 any_user_props=3 encode_opt_props=3 encoded_size_opt_props=3 clone=3
//@ assumes: strings well-formed UTF-8
//@ desc: v5 PUBREC round trip (0x50)
rt5_ack!(rt5_pubrec, PublishReceived, PublishAck, any_puback_reason, 0x50);
//@ props: C01
//@ tier: quick
//@ functions: v5::Codec::encodev, EncodeLtd for PublishAck2, ack_props::*, decode::decode_packet, PublishAck2::decode
//@ bounds: packet id full width; both reason codes; 0..=1 user property (0..=1-byte strings); optional reason string 0..=1 byte
//@ unwindset: utf8_is_valid=3 slice_eq=3 expect_lp=3 ack_props::decode=4 spec_check_diag_props=4 any_user_props=3 encode_opt_props=3 encoded_size_opt_props=3 clone=3
//@ assumes: strings well-formed UTF-8
//@ desc: v5 PUBREL round trip (0x62, reserved flags 0010)
rt5_ack!(rt5_pubrel, PublishRelease, PublishAck2, any_puback2_reason, 0x62);
//@ props: C01
//@ tier: quick
//@ functions: v5::Codec::encodev, EncodeLtd for PublishAck2, ack_props::*, decode::decode_packet, PublishAck2::decode
//@ bounds: as rt5_pubrel
//@ unwindset: utf8_is_valid=3 slice_eq=3 expect_lp=3 ack_props::decode=4 spec_check_diag_props=4 any_user_props=3 encode_opt_props=3 encoded_size_opt_props=3 clone=3
//@ assumes: strings well-formed UTF-8
//@ desc: v5 PUBCOMP round trip (0x70)
rt5_ack!(rt5_pubcomp, PublishComplete, PublishAck2, any_puback2_reason, 0x70);

vharness! {
    //@ props: C01
    //@ tier: quick
    //@ expect: fail
    //@ unwindset: utf8_is_valid=3 slice_eq=3 expect_lp=3 ack_props::decode=4 any_user_props=3 encode_opt_props=3 encoded_size_opt_props=3 clone=3
    //@ desc: reachability twin of the v5 ack round trips (claims decode never returns the packet)
    fn twin_rt5_ack() unwind(5) {
        let (reason_code, _num) = any_puback_reason();
        let pkt = PublishAck {
            packet_id: vh::any_nz16(),
            reason_code,
            properties: any_user_props::<1, 1>(),
            reason_string: vh::any_opt_str::<1>(),
        };
        let codec = Codec::new();
        if let Ok(out) = enc5(&codec, Encoded::Packet(Packet::PublishAck(pkt.clone()))) {
            assert!(dec_body5(&out, 0x40) != Ok(Packet::PublishAck(pkt)));
        }
    }
}

// ---- PINGREQ / PINGRESP -------------------------------------------------------------------------
macro_rules! rt5_empty {
    ($name:ident, $variant:ident, $first:expr) => {
        vharness! {
            fn $name() unwind(5) {
                let codec = Codec::new();
                let out = match enc5(&codec, Encoded::Packet(Packet::$variant)) { Ok(o) => o, Err(_) => { assert!(false); return; } };
                assert!(out.len() == 2 && out[0] == $first && out[1] == 0);
                assert!(dec_body5(&out, $first) == Ok(Packet::$variant));
                vcover!(out.len() == 2, "two byte frame");
            }
        }
    };
}
//@ props: C01
//@ tier: quick
//@ functions: v5::Codec::encodev, EncodeLtd for Packet, decode::decode_packet
//@ bounds: none (no fields)
//@ desc: v5 PINGREQ is exactly C0 00 and decodes back
rt5_empty!(rt5_pingreq, PingRequest, 0xC0);
//@ props: C01
//@ tier: quick
//@ functions: v5::Codec::encodev, EncodeLtd for Packet, decode::decode_packet
//@ bounds: none (no fields)
//@ desc: v5 PINGRESP is exactly D0 00 and decodes back
rt5_empty!(rt5_pingresp, PingResponse, 0xD0);

// ---- SUBACK / UNSUBACK --------------------------------------------------------------------------
macro_rules! rt5_suback {
    ($name:ident, $variant:ident, $ty:ident, $reason:ident, $first:expr) => {
        vharness! {
            fn $name() unwind(5) {
                let n = vk::any_len(2);
                let mut status = Vec::new();
                let mut wire = [0u8; 2];
                let mut i = 0;
                while i < n {
                    let (c, w) = $reason();
                    status.push(c);
                    wire[i] = w;
                    i += 1;
                }
                let pkt = $ty {
                    packet_id: vh::any_nz16(),
                    properties: any_user_props::<1, 1>(),
                    reason_string: vh::any_opt_str::<1>(),
                    status,
                };
                let codec = Codec::new();
                let out = match enc5(&codec, Encoded::Packet(Packet::$variant(pkt.clone()))) { Ok(o) => o, Err(_) => { assert!(false); return; } };
                let (mut r, _rl) = rd_header5(&out, $first);
                assert!(r.u16() == pkt.packet_id.get());
                assert!(spec_check_diag_props(&mut r, &pkt.properties, &pkt.reason_string));
                assert!(r.expect_raw(&wire[..n]));
                assert!(r.at_end() && !r.bad);
                assert!(dec_body5(&out, $first) == Ok(Packet::$variant(pkt.clone())));
                vcover!(n == 2 && pkt.properties.len() == 1 && pkt.reason_string.is_some(), "two codes, user property, reason string");
                vcover!(n == 0, "no reason codes");
            }
        }
    };
}
//@ props: C01
//@ tier: quick
//@ functions: v5::Codec::encodev, EncodeLtd for SubscribeAck, ack_props::*, decode::decode_packet, SubscribeAck::decode
//@ bounds: packet id full width; 0..=2 reason codes out of all 12; 0..=1 user property (0..=1-byte strings); optional reason string 0..=1 byte
//@ unwindset: utf8_is_valid=3 slice_eq=3 expect_lp=3 expect_raw=3 ack_props::decode=4 spec_check_diag_props=4 any_user_props=3 encode_opt_props=3 encoded_size_opt_props=3 clone=4 SubscribeAck=4
//@ assumes: strings well-formed UTF-8
//@ desc: v5 SUBACK round trip (0x90 RL id props codes*), reason code values from spec table 3.9.3
rt5_suback!(rt5_suback, SubscribeAck, SubscribeAck, any_suback_reason, 0x90);
//@ props: C01
//@ tier: quick
//@ functions: v5::Codec::encodev, EncodeLtd for UnsubscribeAck, ack_props::*, reduce_limit, decode::decode_packet, UnsubscribeAck::decode
//@ bounds: packet id full width; 0..=2 reason codes out of all 7; 0..=1 user property; optional reason string 0..=1 byte
//@ unwindset: utf8_is_valid=3 slice_eq=3 expect_lp=3 expect_raw=3 ack_props::decode=4 spec_check_diag_props=4 any_user_props=3 encode_opt_props=3 encoded_size_opt_props=3 clone=4 UnsubscribeAck=4
//@ assumes: strings well-formed UTF-8
//@ desc: v5 UNSUBACK round trip (0xB0), reason code values from spec table 3.11.3
rt5_suback!(rt5_unsuback, UnsubscribeAck, UnsubscribeAck, any_unsuback_reason, 0xB0);

// ---- SUBSCRIBE / UNSUBSCRIBE --------------------------------------------------------------------
fn any_sub_opts() -> (SubscriptionOptions, u8) {
    let qos = vh::any_qos();
    let no_local = vk::any_bool();
    let rap = vk::any_bool();
    let rh = vk::any_u8();
    vk::assume(rh < 3);
    let retain_handling = match rh {
        0 => RetainHandling::AtSubscribe,
        1 => RetainHandling::AtSubscribeNew,
        _ => RetainHandling::NoAtSubscribe,
    };
    // 3.8.3.1: bits 0-1 QoS, bit 2 NL, bit 3 RAP, bits 4-5 retain handling, bits 6-7 reserved 0
    let wire = vh::qos_num(qos) | ((no_local as u8) << 2) | ((rap as u8) << 3) | (rh << 4);
    (SubscriptionOptions { qos, no_local, retain_as_published: rap, retain_handling }, wire)
}

/// a legal Subscription Identifier: 1..=268435455 (3.8.2.1.2)
fn any_sub_id() -> NonZeroU32 {
    let v = vh::any_nz32();
    vk::assume(v.get() <= 268_435_455);
    v
}

vharness! {
    //@ props: C01
    //@ tier: quick
    //@ functions: v5::Codec::encodev, EncodeLtd for Subscribe, Encode for SubscriptionOptions/UserProperties, var_int_len, write_variable_length, decode::decode_packet, Subscribe::decode, Decode for SubscriptionOptions
    //@ bounds: packet id full width; optional subscription identifier over its whole legal range 1..=268435455; 0..=1 user property (0..=1-byte strings); 0..=2 topic filters of 0..=1 byte with all option bits symbolic
    //@ unwindset: utf8_is_valid=3 slice_eq=3 expect_lp=3 Subscribe=4 any_user_props=3 clone=4 decode_variable_length_cursor=6
    //@ assumes: strings well-formed UTF-8; subscription identifier within the MQTT range
    //@ desc: v5 SUBSCRIBE round trip (0x82 RL id props (filter opts)*): option byte layout per 3.8.3.1, property 0x0B as variable byte integer
    fn rt5_subscribe() unwind(5) {
        let n = vk::any_len(2);
        let mut topic_filters = Vec::new();
        let mut wire = [0u8; 2];
        let mut i = 0;
        while i < n {
            let (o, w) = any_sub_opts();
            topic_filters.push((vh::any_str::<1>(), o));
            wire[i] = w;
            i += 1;
        }
        let pkt = Subscribe {
            packet_id: vh::any_nz16(),
            id: if vk::any_bool() { Some(any_sub_id()) } else { None },
            user_properties: any_user_props::<1, 1>(),
            topic_filters,
        };
        let codec = Codec::new();
        let out = match enc5(&codec, Encoded::Packet(Packet::Subscribe(pkt.clone()))) { Ok(o) => o, Err(_) => { assert!(false); return; } };
        let (mut r, _rl) = rd_header5(&out, 0x82);
        assert!(r.u16() == pkt.packet_id.get());
        let end = props_begin(&mut r);
        let mut seen_id = false;
        let mut idx = 0;
        let mut guard = 0;
        while r.pos < end && !r.bad && guard < 4 {
            match r.u8() {
                0x0B => {
                    assert!(!seen_id);
                    seen_id = true;
                    let v = r.varint();
                    assert!(pkt.id.map(|x| x.get()) == Some(v));
                }
                0x26 => assert!(expect_user_prop(&mut r, &pkt.user_properties, &mut idx)),
                _ => assert!(false),
            }
            guard += 1;
        }
        assert!(r.pos == end && idx == pkt.user_properties.len() && seen_id == pkt.id.is_some());
        let mut i = 0;
        while i < n {
            assert!(r.expect_lp(pkt.topic_filters[i].0.as_bytes()));
            assert!(r.u8() == wire[i]);
            i += 1;
        }
        assert!(r.at_end() && !r.bad);
        assert!(dec_body5(&out, 0x82) == Ok(Packet::Subscribe(pkt.clone())));
        vcover!(n == 2 && pkt.id.is_some() && pkt.user_properties.len() == 1, "two filters, id, user property");
        vcover!(pkt.id.map(|x| x.get()) == Some(268_435_455), "largest subscription identifier");
        vcover!(pkt.id.map(|x| x.get()) == Some(128), "two-byte subscription identifier");
    }
}

vharness! {
    //@ props: C01
    //@ tier: quick
    //@ functions: v5::Codec::encodev, EncodeLtd for Unsubscribe, decode::decode_packet, Unsubscribe::decode
    //@ bounds: packet id full width; 0..=1 user property (0..=1-byte strings); 0..=2 topic filters of 0..=1 byte
    //@ unwindset: utf8_is_valid=3 slice_eq=3 expect_lp=3 Unsubscribe=4 any_user_props=3 clone=4 decode_variable_length_cursor=6
    //@ assumes: strings well-formed UTF-8
    //@ desc: v5 UNSUBSCRIBE round trip (0xA2 RL id props filter*)
    fn rt5_unsubscribe() unwind(5) {
        let n = vk::any_len(2);
        let mut topic_filters = Vec::new();
        let mut i = 0;
        while i < n {
            topic_filters.push(vh::any_str::<1>());
            i += 1;
        }
        let pkt = Unsubscribe {
            packet_id: vh::any_nz16(),
            user_properties: any_user_props::<1, 1>(),
            topic_filters,
        };
        let codec = Codec::new();
        let out = match enc5(&codec, Encoded::Packet(Packet::Unsubscribe(pkt.clone()))) { Ok(o) => o, Err(_) => { assert!(false); return; } };
        let (mut r, _rl) = rd_header5(&out, 0xA2);
        assert!(r.u16() == pkt.packet_id.get());
        let end = props_begin(&mut r);
        let mut idx = 0;
        let mut guard = 0;
        while r.pos < end && !r.bad && guard < 4 {
            match r.u8() {
                0x26 => assert!(expect_user_prop(&mut r, &pkt.user_properties, &mut idx)),
                _ => assert!(false),
            }
            guard += 1;
        }
        assert!(r.pos == end && idx == pkt.user_properties.len());
        let mut i = 0;
        while i < n {
            assert!(r.expect_lp(pkt.topic_filters[i].as_bytes()));
            i += 1;
        }
        assert!(r.at_end() && !r.bad);
        assert!(dec_body5(&out, 0xA2) == Ok(Packet::Unsubscribe(pkt.clone())));
        vcover!(n == 2 && pkt.user_properties.len() == 1, "two filters and a user property");
    }
}

// ---- DISCONNECT / AUTH --------------------------------------------------------------------------
vharness! {
    //@ props: C01 C15
    //@ tier: quick
    //@ functions: v5::Codec::encodev, EncodeLtd for Disconnect, encode_property, encode_opt_props, encoded_size_opt_props, reduce_limit, var_int_len_from_size, decode::decode_packet, Disconnect::decode
    //@ bounds: all 30 reason codes; optional session expiry (u32 full width); optional server reference, reason string (0..=1 byte each); 0..=1 user property (0..=1-byte strings)
    //@ unwindset: utf8_is_valid=3 slice_eq=3 expect_lp=3 Disconnect=5 any_user_props=3 encode_opt_props=3 encoded_size_opt_props=3 clone=3 decode_variable_length_cursor=6
    //@ assumes: strings well-formed UTF-8
    //@ desc: v5 DISCONNECT round trip (0xE0 RL reason props): reason code values per spec table 3.14.2.1; property ids 0x11 0x1C 0x1F 0x26
    fn rt5_disconnect() unwind(5) {
        let (reason_code, num) = any_disconnect_reason();
        let pkt = Disconnect {
            reason_code,
            session_expiry_interval_secs: vh::any_opt_u32(),
            server_reference: vh::any_opt_str::<1>(),
            reason_string: vh::any_opt_str::<1>(),
            user_properties: any_user_props::<1, 1>(),
        };
        let codec = Codec::new();
        let out = match enc5(&codec, Encoded::Packet(Packet::Disconnect(pkt.clone()))) { Ok(o) => o, Err(_) => { assert!(false); return; } };
        let (mut r, rl) = rd_header5(&out, 0xE0);
        if rl == 0 {
            // 3.14.2.1: RL 0 means reason 0x00 and no properties
            assert!(num == 0 && pkt.session_expiry_interval_secs.is_none() && pkt.server_reference.is_none()
                && pkt.reason_string.is_none() && pkt.user_properties.is_empty());
        } else {
            assert!(r.u8() == num);
            if r.left() > 0 {
                let end = props_begin(&mut r);
                let (mut s11, mut s1c, mut s1f) = (false, false, false);
                let mut idx = 0;
                let mut guard = 0;
                while r.pos < end && !r.bad && guard < 6 {
                    match r.u8() {
                        0x11 => { assert!(!s11); s11 = true; assert!(Some(r.u32()) == pkt.session_expiry_interval_secs); }
                        0x1C => { assert!(!s1c); s1c = true; match &pkt.server_reference { Some(s) => assert!(r.expect_lp(s.as_bytes())), None => assert!(false) } }
                        0x1F => { assert!(!s1f); s1f = true; match &pkt.reason_string { Some(s) => assert!(r.expect_lp(s.as_bytes())), None => assert!(false) } }
                        0x26 => assert!(expect_user_prop(&mut r, &pkt.user_properties, &mut idx)),
                        _ => assert!(false),
                    }
                    guard += 1;
                }
                assert!(r.pos == end && idx == pkt.user_properties.len());
                assert!(s11 == pkt.session_expiry_interval_secs.is_some());
                assert!(s1c == pkt.server_reference.is_some());
                assert!(s1f == pkt.reason_string.is_some());
            } else {
                assert!(pkt.session_expiry_interval_secs.is_none() && pkt.server_reference.is_none()
                    && pkt.reason_string.is_none() && pkt.user_properties.is_empty());
            }
        }
        assert!(r.at_end() && !r.bad);
        assert!(dec_body5(&out, 0xE0) == Ok(Packet::Disconnect(pkt.clone())));
        vcover!(pkt.session_expiry_interval_secs.is_some() && pkt.server_reference.is_some() && pkt.reason_string.is_some() && pkt.user_properties.len() == 1, "all four properties");
        vcover!(num == 0x8D, "keep alive timeout");
    }
}

vharness! {
    //@ props: C01
    //@ tier: quick
    //@ functions: v5::Codec::encodev, EncodeLtd for Auth, encode_property, encode_opt_props, encoded_size_opt_props, reduce_limit, var_int_len_from_size, decode::decode_packet, Auth::decode
    //@ bounds: all 3 reason codes; optional auth method (0..=1 byte), auth data (0..=1 byte), reason string (0..=1 byte); 0..=1 user property (0..=1-byte strings)
    //@ unwindset: utf8_is_valid=3 slice_eq=3 expect_lp=3 Auth=5 any_user_props=3 encode_opt_props=3 encoded_size_opt_props=3 clone=3 decode_variable_length_cursor=6
    //@ assumes: strings well-formed UTF-8
    //@ desc: v5 AUTH round trip (0xF0 RL reason props): reason codes 0x00 0x18 0x19; property ids 0x15 0x16 0x1F 0x26
    fn rt5_auth() unwind(5) {
        let (reason_code, num) = any_auth_reason();
        let pkt = Auth {
            reason_code,
            auth_method: vh::any_opt_str::<1>(),
            auth_data: vh::any_opt_bin::<1>(),
            reason_string: vh::any_opt_str::<1>(),
            user_properties: any_user_props::<1, 1>(),
        };
        let codec = Codec::new();
        let out = match enc5(&codec, Encoded::Packet(Packet::Auth(pkt.clone()))) { Ok(o) => o, Err(_) => { assert!(false); return; } };
        let (mut r, rl) = rd_header5(&out, 0xF0);
        if rl == 0 {
            assert!(num == 0 && pkt.auth_method.is_none() && pkt.auth_data.is_none() && pkt.reason_string.is_none() && pkt.user_properties.is_empty());
        } else {
            assert!(r.u8() == num);
            if r.left() > 0 {
                let end = props_begin(&mut r);
                let (mut s15, mut s16, mut s1f) = (false, false, false);
                let mut idx = 0;
                let mut guard = 0;
                while r.pos < end && !r.bad && guard < 6 {
                    match r.u8() {
                        0x15 => { assert!(!s15); s15 = true; match &pkt.auth_method { Some(s) => assert!(r.expect_lp(s.as_bytes())), None => assert!(false) } }
                        0x16 => { assert!(!s16); s16 = true; match &pkt.auth_data { Some(s) => assert!(r.expect_lp(s)), None => assert!(false) } }
                        0x1F => { assert!(!s1f); s1f = true; match &pkt.reason_string { Some(s) => assert!(r.expect_lp(s.as_bytes())), None => assert!(false) } }
                        0x26 => assert!(expect_user_prop(&mut r, &pkt.user_properties, &mut idx)),
                        _ => assert!(false),
                    }
                    guard += 1;
                }
                assert!(r.pos == end && idx == pkt.user_properties.len());
                assert!(s15 == pkt.auth_method.is_some() && s16 == pkt.auth_data.is_some() && s1f == pkt.reason_string.is_some());
            } else {
                assert!(pkt.auth_method.is_none() && pkt.auth_data.is_none() && pkt.reason_string.is_none() && pkt.user_properties.is_empty());
            }
        }
        assert!(r.at_end() && !r.bad);
        assert!(dec_body5(&out, 0xF0) == Ok(Packet::Auth(pkt.clone())));
        vcover!(pkt.auth_method.is_some() && pkt.auth_data.is_some() && pkt.reason_string.is_some() && pkt.user_properties.len() == 1, "all four properties");
    }
}

// ---- CONNECT ------------------------------------------------------------------------------------
fn any_last_will5<const S: usize>() -> LastWill {
    LastWill {
        qos: vh::any_qos(),
        retain: vk::any_bool(),
        topic: vh::any_str::<S>(),
        message: vh::any_bin::<S>(),
        will_delay_interval_sec: vh::any_opt_u32(),
        correlation_data: vh::any_opt_bin::<S>(),
        message_expiry_interval: vh::any_opt_nz32(),
        content_type: vh::any_opt_str::<S>(),
        user_properties: any_user_props::<1, S>(),
        is_utf8_payload: vh::any_opt_bool(),
        response_topic: vh::any_opt_str::<S>(),
    }
}

/// 3.1.3.2 will properties: 0x18 u32, 0x01 byte, 0x02 u32, 0x03 str, 0x08 str, 0x09 bin, 0x26 pair
fn spec_check_will_props(r: &mut Rd<'_>, w: &LastWill) -> bool {
    let end = props_begin(r);
    let mut ok = true;
    let (mut s18, mut s01, mut s02, mut s03, mut s08, mut s09) = (false, false, false, false, false, false);
    let mut idx = 0;
    let mut guard = 0;
    while r.pos < end && !r.bad && guard < 9 {
        match r.u8() {
            0x18 => { ok &= !s18; s18 = true; ok &= Some(r.u32()) == w.will_delay_interval_sec; }
            0x01 => { ok &= !s01; s01 = true; let b = r.u8(); ok &= b <= 1 && Some(b == 1) == w.is_utf8_payload; }
            0x02 => { ok &= !s02; s02 = true; ok &= Some(r.u32()) == w.message_expiry_interval.map(|v| v.get()); }
            0x03 => { ok &= !s03; s03 = true; match &w.content_type { Some(s) => ok &= r.expect_lp(s.as_bytes()), None => ok = false } }
            0x08 => { ok &= !s08; s08 = true; match &w.response_topic { Some(s) => ok &= r.expect_lp(s.as_bytes()), None => ok = false } }
            0x09 => { ok &= !s09; s09 = true; match &w.correlation_data { Some(s) => ok &= r.expect_lp(s), None => ok = false } }
            0x26 => ok &= expect_user_prop(r, &w.user_properties, &mut idx),
            _ => ok = false,
        }
        guard += 1;
    }
    ok && r.pos == end && idx == w.user_properties.len()
        && s18 == w.will_delay_interval_sec.is_some() && s01 == w.is_utf8_payload.is_some()
        && s02 == w.message_expiry_interval.is_some() && s03 == w.content_type.is_some()
        && s08 == w.response_topic.is_some() && s09 == w.correlation_data.is_some()
}

/// 3.1.2.11 connect properties: 0x11 u32 (default 0), 0x15 str, 0x16 bin, 0x17 byte (default 1),
/// 0x19 byte (default 0), 0x21 u16 (absent = 65535, value 0 illegal), 0x27 u32 (absent = no limit,
/// 0 illegal), 0x22 u16 (default 0), 0x26 pair. A property whose value equals its default may be
/// omitted or sent; the reader accepts both.
fn spec_check_connect_props(r: &mut Rd<'_>, c: &Connect) -> bool {
    let end = props_begin(r);
    let mut ok = true;
    let (mut s11, mut s15, mut s16, mut s17, mut s19, mut s21, mut s27, mut s22) =
        (false, false, false, false, false, false, false, false);
    let mut idx = 0;
    let mut guard = 0;
    while r.pos < end && !r.bad && guard < 10 {
        match r.u8() {
            0x11 => { ok &= !s11; s11 = true; ok &= r.u32() == c.session_expiry_interval_secs; }
            0x15 => { ok &= !s15; s15 = true; match &c.auth_method { Some(s) => ok &= r.expect_lp(s.as_bytes()), None => ok = false } }
            0x16 => { ok &= !s16; s16 = true; match &c.auth_data { Some(s) => ok &= r.expect_lp(s), None => ok = false } }
            0x17 => { ok &= !s17; s17 = true; let b = r.u8(); ok &= b <= 1 && (b == 1) == c.request_problem_info; }
            0x19 => { ok &= !s19; s19 = true; let b = r.u8(); ok &= b <= 1 && (b == 1) == c.request_response_info; }
            0x21 => { ok &= !s21; s21 = true; ok &= Some(r.u16()) == c.receive_max.map(|v| v.get()); }
            0x27 => { ok &= !s27; s27 = true; ok &= Some(r.u32()) == c.max_packet_size.map(|v| v.get()); }
            0x22 => { ok &= !s22; s22 = true; ok &= r.u16() == c.topic_alias_max; }
            0x26 => ok &= expect_user_prop(r, &c.user_properties, &mut idx),
            _ => ok = false,
        }
        guard += 1;
    }
    ok && r.pos == end && idx == c.user_properties.len()
        && (s11 || c.session_expiry_interval_secs == 0)
        && s15 == c.auth_method.is_some() && s16 == c.auth_data.is_some()
        && (s17 || c.request_problem_info) && (s19 || !c.request_response_info)
        && s21 == c.receive_max.is_some() && s27 == c.max_packet_size.is_some()
        && (s22 || c.topic_alias_max == 0)
}

fn any_connect5<const S: usize>() -> Connect {
    Connect {
        clean_start: vk::any_bool(),
        keep_alive: vk::any_u16(),
        session_expiry_interval_secs: vk::any_u32(),
        auth_method: vh::any_opt_str::<S>(),
        auth_data: vh::any_opt_bin::<S>(),
        request_problem_info: vk::any_bool(),
        request_response_info: vk::any_bool(),
        receive_max: vh::any_opt_nz16(),
        topic_alias_max: vk::any_u16(),
        user_properties: any_user_props::<1, S>(),
        max_packet_size: vh::any_opt_nz32(),
        last_will: None,
        client_id: vh::any_str::<S>(),
        username: vh::any_opt_str::<S>(),
        password: vh::any_opt_bin::<S>(),
    }
}

fn check_connect5(c: &Connect, out: &Bytes) {
    let (mut r, _rl) = rd_header5(out, 0x10);
    assert!(r.expect_lp(b"MQTT"));
    assert!(r.u8() == 5, "protocol version 5");
    let mut flags = 0u8;
    if c.username.is_some() { flags |= 0x80; }
    if c.password.is_some() { flags |= 0x40; }
    if let Some(w) = &c.last_will {
        flags |= 0x04;
        if w.retain { flags |= 0x20; }
        flags |= vh::qos_num(w.qos) << 3;
    }
    if c.clean_start { flags |= 0x02; }
    assert!(r.u8() == flags, "connect flags (bit 0 reserved = 0)");
    assert!(r.u16() == c.keep_alive);
    assert!(spec_check_connect_props(&mut r, c));
    assert!(r.expect_lp(c.client_id.as_bytes()));
    if let Some(w) = &c.last_will {
        assert!(spec_check_will_props(&mut r, w));
        assert!(r.expect_lp(w.topic.as_bytes()));
        assert!(r.expect_lp(&w.message));
    }
    if let Some(u) = &c.username { assert!(r.expect_lp(u.as_bytes())); }
    if let Some(p) = &c.password { assert!(r.expect_lp(p)); }
    assert!(r.at_end() && !r.bad);
}

macro_rules! rt5_connect_group {
    ($name:ident, |$c:ident| $cfg:block, $cov:expr) => {
        vharness! {
            fn $name() unwind(5) {
                let mut $c = Connect::default();
                $cfg;
                let $c = $c;
                let codec = Codec::new();
                let out = match enc5(&codec, Encoded::Packet(Packet::Connect(Box::new($c.clone())))) { Ok(o) => o, Err(_) => { assert!(false); return; } };
                check_connect5(&$c, &out);
                assert!(dec_body5(&out, 0x10) == Ok(Packet::Connect(Box::new($c.clone()))));
                vcover!($cov, "group fields all present / non-default");
            }
        }
    };
}
//@ props: C01
//@ tier: thorough
//@ functions: v5::Codec::encodev, EncodeLtd for Connect, Connect::properties_len, decode::decode_packet, Connect::decode
//@ bounds: group 1 symbolic (clean start, keep-alive full width, client id / username / password 0..=1 byte, optional), all other fields default
//@ unwindset: utf8_is_valid=3 slice_eq=3 expect_lp=5 Connect=3 clone=3 decode_variable_length_cursor=6 spec_check_connect_props=3
//@ assumes: strings well-formed UTF-8
//@ mem: 20  timeout: 2400
//@ desc: v5 CONNECT round trip, fixed part: protocol name/level, flags byte, keep-alive, client id, username, password
rt5_connect_group!(rt5_connect_g1, |c| {
    c.clean_start = vk::any_bool();
    c.keep_alive = vk::any_u16();
    c.client_id = vh::any_str::<1>();
    c.username = vh::any_opt_str::<1>();
    c.password = vh::any_opt_bin::<1>();
}, c.username.is_some() && c.password.is_some() && c.clean_start);
//@ props: C01
//@ tier: thorough
//@ functions: v5::Codec::encodev, EncodeLtd for Connect, encode_property(_default), decode::decode_packet, Connect::decode
//@ bounds: group 2 symbolic (session expiry full width, auth method / auth data 0..=1 byte optional, request problem info), other fields default
//@ unwindset: utf8_is_valid=3 slice_eq=3 expect_lp=5 Connect=6 clone=3 decode_variable_length_cursor=6 spec_check_connect_props=6
//@ assumes: strings well-formed UTF-8
//@ mem: 20  timeout: 2400
//@ desc: v5 CONNECT round trip, properties 0x11 0x15 0x16 0x17 (ids and defaults per spec 3.1.2.11)
rt5_connect_group!(rt5_connect_g2, |c| {
    c.session_expiry_interval_secs = vk::any_u32();
    c.auth_method = vh::any_opt_str::<1>();
    c.auth_data = vh::any_opt_bin::<1>();
    c.request_problem_info = vk::any_bool();
}, c.session_expiry_interval_secs != 0 && c.auth_method.is_some() && c.auth_data.is_some() && !c.request_problem_info);
//@ props: C01
//@ tier: thorough
//@ functions: v5::Codec::encodev, EncodeLtd for Connect, encode_property(_default), decode::decode_packet, Connect::decode
//@ bounds: group 3 symbolic (request response info, receive max, topic alias max, max packet size - full width, optional), other fields default
//@ unwindset: Connect=6 clone=3 decode_variable_length_cursor=6 spec_check_connect_props=6 expect_lp=5 slice_eq=3 utf8_is_valid=3
//@ mem: 20  timeout: 2400
//@ desc: v5 CONNECT round trip, properties 0x19 0x21 0x22 0x27
rt5_connect_group!(rt5_connect_g3, |c| {
    c.request_response_info = vk::any_bool();
    c.receive_max = vh::any_opt_nz16();
    c.topic_alias_max = vk::any_u16();
    c.max_packet_size = vh::any_opt_nz32();
}, c.request_response_info && c.receive_max.is_some() && c.topic_alias_max != 0 && c.max_packet_size.is_some());
//@ props: C01
//@ tier: thorough
//@ functions: v5::Codec::encodev, EncodeLtd for Connect, Encode for UserProperties, decode::decode_packet, Connect::decode
//@ bounds: group 4 symbolic (0..=2 user properties with 0..=1-byte strings, session expiry), other fields default
//@ unwindset: utf8_is_valid=3 slice_eq=3 expect_lp=5 Connect=5 clone=4 decode_variable_length_cursor=6 spec_check_connect_props=5 any_user_props=4 UserProperties=4
//@ assumes: strings well-formed UTF-8
//@ mem: 20  timeout: 2400
//@ desc: v5 CONNECT round trip, user properties (0x26, repeatable, order preserved) next to another property
rt5_connect_group!(rt5_connect_g4, |c| {
    c.user_properties = any_user_props::<2, 1>();
    c.session_expiry_interval_secs = vk::any_u32();
}, c.user_properties.len() == 2 && c.session_expiry_interval_secs != 0);
//@ props: C01
//@ tier: thorough
//@ functions: v5::Codec::encodev, EncodeLtd for Connect (will part), LastWill::properties_len, decode::decode_packet, Connect::decode, decode_last_will
//@ bounds: will present: QoS/retain symbolic, topic and message 0..=1 byte, will delay (full width) and payload-format flag optional; all will other properties absent
//@ unwindset: utf8_is_valid=3 slice_eq=3 expect_lp=5 Connect=3 decode_last_will=4 spec_check_will_props=4 clone=3 decode_variable_length_cursor=6 spec_check_connect_props=3
//@ assumes: strings well-formed UTF-8
//@ mem: 20  timeout: 2400
//@ desc: v5 CONNECT with a will, part 1: will flag bits (QoS, retain), will properties 0x18 0x01, will topic and payload
rt5_connect_group!(rt5_connect_w1, |c| {
    c.client_id = vh::any_str::<1>();
    let mut w = LastWill { qos: vh::any_qos(), retain: vk::any_bool(), topic: vh::any_str::<1>(), message: vh::any_bin::<1>(),
        will_delay_interval_sec: vh::any_opt_u32(), correlation_data: None, message_expiry_interval: None, content_type: None,
        user_properties: Vec::new(), is_utf8_payload: vh::any_opt_bool(), response_topic: None };
    let _ = &mut w;
    c.last_will = Some(w);
}, c.last_will.as_ref().map_or(false, |w| w.will_delay_interval_sec.is_some() && w.is_utf8_payload == Some(false) && w.retain));
//@ props: C01
//@ tier: thorough
//@ functions: v5::Codec::encodev, EncodeLtd for Connect (will part), decode_last_will
//@ bounds: will present with correlation data, content type (0..=1 byte), message expiry (full width) optional; other will properties absent
//@ unwindset: utf8_is_valid=3 slice_eq=3 expect_lp=5 Connect=3 decode_last_will=5 spec_check_will_props=5 clone=3 decode_variable_length_cursor=6 spec_check_connect_props=3
//@ assumes: strings well-formed UTF-8
//@ mem: 20  timeout: 2400
//@ desc: v5 CONNECT with a will, part 2: will properties 0x09 0x02 0x03
rt5_connect_group!(rt5_connect_w2, |c| {
    let w = LastWill { qos: QoS::AtMostOnce, retain: false, topic: vh::any_str::<1>(), message: Bytes::new(),
        will_delay_interval_sec: None, correlation_data: vh::any_opt_bin::<1>(), message_expiry_interval: vh::any_opt_nz32(), content_type: vh::any_opt_str::<1>(),
        user_properties: Vec::new(), is_utf8_payload: None, response_topic: None };
    c.last_will = Some(w);
}, c.last_will.as_ref().map_or(false, |w| w.correlation_data.is_some() && w.message_expiry_interval.is_some() && w.content_type.is_some()));
//@ props: C01
//@ tier: thorough
//@ functions: v5::Codec::encodev, EncodeLtd for Connect (will part), decode_last_will
//@ bounds: will present with response topic (0..=1 byte) optional and 0..=2 user properties (0..=1-byte strings); other will properties absent
//@ unwindset: utf8_is_valid=3 slice_eq=3 expect_lp=5 Connect=3 decode_last_will=5 spec_check_will_props=5 clone=4 decode_variable_length_cursor=6 spec_check_connect_props=3 any_user_props=4 UserProperties=4
//@ assumes: strings well-formed UTF-8
//@ mem: 20  timeout: 2400
//@ desc: v5 CONNECT with a will, part 3: will properties 0x08 0x26
rt5_connect_group!(rt5_connect_w3, |c| {
    let w = LastWill { qos: QoS::AtMostOnce, retain: false, topic: vh::any_str::<1>(), message: Bytes::new(),
        will_delay_interval_sec: None, correlation_data: None, message_expiry_interval: None, content_type: None,
        user_properties: any_user_props::<2, 1>(), is_utf8_payload: None, response_topic: vh::any_opt_str::<1>() };
    c.last_will = Some(w);
}, c.last_will.as_ref().map_or(false, |w| w.response_topic.is_some() && w.user_properties.len() == 2));

// ---- CONNACK ------------------------------------------------------------------------------------
/// 3.2.2.3 connack properties (id: type, default): 0x11 u32; 0x21 u16 (65535, 0 illegal); 0x24 byte
/// (2); 0x25 byte (1); 0x27 u32 (0 illegal); 0x12 str; 0x22 u16 (0); 0x1F str; 0x26 pair; 0x28 byte
/// (1); 0x29 byte (1); 0x2A byte (1); 0x13 u16; 0x1A str; 0x1C str; 0x15 str; 0x16 bin
fn spec_check_connack_props(r: &mut Rd<'_>, a: &ConnectAck) -> bool {
    let end = props_begin(r);
    let mut ok = true;
    let mut seen = [false; 0x2B];
    let mut idx = 0;
    let mut guard = 0;
    while r.pos < end && !r.bad && guard < 19 {
        let id = r.u8();
        if id as usize >= seen.len() {
            return false;
        }
        if id != 0x26 {
            ok &= !seen[id as usize];
            seen[id as usize] = true;
        }
        match id {
            0x11 => ok &= Some(r.u32()) == a.session_expiry_interval_secs,
            0x21 => ok &= r.u16() == a.receive_max.get(),
            0x24 => { let b = r.u8(); ok &= b <= 1 && b == vh::qos_num(a.max_qos); }
            0x25 => { let b = r.u8(); ok &= b <= 1 && (b == 1) == a.retain_available; }
            0x27 => ok &= Some(r.u32()) == a.max_packet_size,
            0x12 => match &a.assigned_client_id { Some(s) => ok &= r.expect_lp(s.as_bytes()), None => ok = false },
            0x22 => ok &= r.u16() == a.topic_alias_max,
            0x1F => match &a.reason_string { Some(s) => ok &= r.expect_lp(s.as_bytes()), None => ok = false },
            0x26 => ok &= expect_user_prop(r, &a.user_properties, &mut idx),
            0x28 => { let b = r.u8(); ok &= b <= 1 && (b == 1) == a.wildcard_subscription_available; }
            0x29 => { let b = r.u8(); ok &= b <= 1 && (b == 1) == a.subscription_identifiers_available; }
            0x2A => { let b = r.u8(); ok &= b <= 1 && (b == 1) == a.shared_subscription_available; }
            0x13 => ok &= Some(r.u16()) == a.server_keepalive_sec,
            0x1A => match &a.response_info { Some(s) => ok &= r.expect_lp(s.as_bytes()), None => ok = false },
            0x1C => match &a.server_reference { Some(s) => ok &= r.expect_lp(s.as_bytes()), None => ok = false },
            0x15 => match &a.auth_method { Some(s) => ok &= r.expect_lp(s.as_bytes()), None => ok = false },
            0x16 => match &a.auth_data { Some(s) => ok &= r.expect_lp(s), None => ok = false },
            _ => ok = false,
        }
        guard += 1;
    }
    ok && r.pos == end && idx == a.user_properties.len()
        && seen[0x11] == a.session_expiry_interval_secs.is_some()
        && (seen[0x21] || a.receive_max.get() == 65535)
        && (seen[0x24] || a.max_qos == QoS::ExactlyOnce)
        && (seen[0x25] || a.retain_available)
        && seen[0x27] == a.max_packet_size.is_some()
        && seen[0x12] == a.assigned_client_id.is_some()
        && (seen[0x22] || a.topic_alias_max == 0)
        && seen[0x1F] == a.reason_string.is_some()
        && (seen[0x28] || a.wildcard_subscription_available)
        && (seen[0x29] || a.subscription_identifiers_available)
        && (seen[0x2A] || a.shared_subscription_available)
        && seen[0x13] == a.server_keepalive_sec.is_some()
        && seen[0x1A] == a.response_info.is_some()
        && seen[0x1C] == a.server_reference.is_some()
        && seen[0x15] == a.auth_method.is_some()
        && seen[0x16] == a.auth_data.is_some()
}

fn check_connack5(a: &ConnectAck, num: u8, out: &Bytes) {
    let (mut r, _rl) = rd_header5(out, 0x20);
    assert!(r.u8() == a.session_present as u8, "acknowledge flags: bit 0 session present, others 0");
    assert!(r.u8() == num);
    assert!(spec_check_connack_props(&mut r, a));
    assert!(r.at_end() && !r.bad);
}

macro_rules! rt5_connack_group {
    ($name:ident, |$a:ident| $cfg:block, $cov:expr) => {
        vharness! {
            fn $name() unwind(5) {
                let (reason_code, num) = any_connack_reason();
                let mut $a = ConnectAck::default();
                $a.reason_code = reason_code;
                $cfg;
                let $a = $a;
                let codec = Codec::new();
                let out = match enc5(&codec, Encoded::Packet(Packet::ConnectAck(Box::new($a.clone())))) { Ok(o) => o, Err(_) => { assert!(false); return; } };
                check_connack5(&$a, num, &out);
                assert!(dec_body5(&out, 0x20) == Ok(Packet::ConnectAck(Box::new($a.clone()))));
                vcover!($cov, "group fields all present / non-default");
            }
        }
    };
}
//@ props: C01
//@ tier: thorough
//@ functions: v5::Codec::encodev, EncodeLtd for ConnectAck, encode_property(_default), var_int_len_from_size, decode::decode_packet, ConnectAck::decode
//@ bounds: all 22 reason codes; group 1 symbolic (session present, session expiry, receive max, max QoS - full width), other properties default
//@ unwindset: ConnectAck=5 spec_check_connack_props=5 decode_variable_length_cursor=6 clone=3 expect_lp=3 slice_eq=3 utf8_is_valid=3
//@ mem: 10  timeout: 1200
//@ desc: v5 CONNACK round trip: flags, reason code values per spec table 3.2.2.2, properties 0x11 0x21 0x24 and their defaults
rt5_connack_group!(rt5_connack_g1, |a| {
    a.session_present = vk::any_bool();
    a.session_expiry_interval_secs = vh::any_opt_u32();
    a.receive_max = vh::any_nz16();
    a.max_qos = vh::any_qos();
}, a.session_expiry_interval_secs.is_some() && a.receive_max.get() != 65535 && a.max_qos == QoS::AtMostOnce);
//@ props: C01
//@ tier: thorough
//@ functions: v5::Codec::encodev, EncodeLtd for ConnectAck, decode::decode_packet, ConnectAck::decode
//@ bounds: group 2 symbolic (retain available, max packet size incl. 0, topic alias max, wildcard / subscription-id availability), other properties default
//@ unwindset: ConnectAck=7 spec_check_connack_props=7 decode_variable_length_cursor=6 clone=3 expect_lp=3 slice_eq=3 utf8_is_valid=3
//@ mem: 20  timeout: 2400
//@ desc: v5 CONNACK round trip: properties 0x25 0x27 0x22 0x28 0x29 and their defaults
rt5_connack_group!(rt5_connack_g2, |a| {
    a.retain_available = vk::any_bool();
    a.max_packet_size = vh::any_opt_u32();
    a.topic_alias_max = vk::any_u16();
    a.wildcard_subscription_available = vk::any_bool();
    a.subscription_identifiers_available = vk::any_bool();
}, !a.retain_available && a.max_packet_size.is_some() && a.topic_alias_max != 0 && !a.wildcard_subscription_available && !a.subscription_identifiers_available);
//@ props: C01
//@ tier: thorough
//@ functions: v5::Codec::encodev, EncodeLtd for ConnectAck, decode::decode_packet, ConnectAck::decode
//@ bounds: group 3 symbolic (shared subscription availability, server keep-alive, assigned client id and response info 0..=1 byte optional)
//@ unwindset: ConnectAck=6 spec_check_connack_props=6 decode_variable_length_cursor=6 clone=3 expect_lp=3 slice_eq=3 utf8_is_valid=3
//@ assumes: strings well-formed UTF-8
//@ mem: 10  timeout: 1200
//@ desc: v5 CONNACK round trip: properties 0x2A 0x13 0x12 0x1A
rt5_connack_group!(rt5_connack_g3, |a| {
    a.shared_subscription_available = vk::any_bool();
    a.server_keepalive_sec = vh::any_opt_u16();
    a.assigned_client_id = vh::any_opt_str::<1>();
    a.response_info = vh::any_opt_str::<1>();
}, !a.shared_subscription_available && a.server_keepalive_sec.is_some() && a.assigned_client_id.is_some() && a.response_info.is_some());
//@ props: C01
//@ tier: thorough
//@ functions: v5::Codec::encodev, EncodeLtd for ConnectAck, decode::decode_packet, ConnectAck::decode
//@ bounds: group 4 symbolic (server reference, auth method, auth data 0..=1 byte, optional)
//@ unwindset: ConnectAck=5 spec_check_connack_props=5 decode_variable_length_cursor=6 clone=3 expect_lp=3 slice_eq=3 utf8_is_valid=3
//@ assumes: strings well-formed UTF-8
//@ mem: 10  timeout: 1200
//@ desc: v5 CONNACK round trip: properties 0x1C 0x15 0x16
rt5_connack_group!(rt5_connack_g4, |a| {
    a.server_reference = vh::any_opt_str::<1>();
    a.auth_method = vh::any_opt_str::<1>();
    a.auth_data = vh::any_opt_bin::<1>();
}, a.server_reference.is_some() && a.auth_method.is_some() && a.auth_data.is_some());
//@ props: C01
//@ tier: thorough
//@ functions: v5::Codec::encodev, EncodeLtd for ConnectAck, encode_opt_props, encoded_size_opt_props, reduce_limit, decode::decode_packet, ConnectAck::decode
//@ bounds: group 5 symbolic (reason string 0..=1 byte optional, 0..=2 user properties with 0..=1-byte strings, server keep-alive)
//@ unwindset: ConnectAck=6 spec_check_connack_props=6 decode_variable_length_cursor=6 clone=4 expect_lp=3 slice_eq=3 utf8_is_valid=3 any_user_props=4 encode_opt_props=4 encoded_size_opt_props=4
//@ assumes: strings well-formed UTF-8
//@ mem: 20  timeout: 2400
//@ desc: v5 CONNACK round trip: diagnostics 0x1F 0x26 next to another property
rt5_connack_group!(rt5_connack_g5, |a| {
    a.reason_string = vh::any_opt_str::<1>();
    a.user_properties = any_user_props::<2, 1>();
    a.server_keepalive_sec = vh::any_opt_u16();
}, a.reason_string.is_some() && a.user_properties.len() == 2 && a.server_keepalive_sec.is_some());

// ---- C09 integer kernels of the size arithmetic (full width) --------------------------------------
vharness! {
    //@ props: C09 C01
    //@ tier: quick
    //@ functions: v5 encode::{var_int_len, var_int_len_u32, var_int_len_from_size, reduce_limit}, v5::Codec::set_max_outbound_size
    //@ bounds: v, n: the whole variable-byte-integer domain 0..=268435455; limit: u32 and reduction: usize full width; size: u32 full width - decided by SAT, not enumerated
    //@ desc: var_int_len(_u32) equal the specification's length table; var_int_len_from_size inverts n + len(n) for every n; reduce_limit is a saturating subtraction; set_max_outbound_size subtracts the 5 header bytes above 5
    fn lim5_kernels() unwind(3) {
        let v = vk::any_u32();
        vk::assume(v <= 268_435_455);
        assert!(encode::var_int_len_u32(v) as usize == vh::spec_varint_len(v));
        assert!(encode::var_int_len(v as usize) as usize == vh::spec_varint_len(v));
        // size -> length inversion used by every property-list emitter
        let total = v + vh::spec_varint_len(v) as u32;
        assert!(encode::var_int_len_from_size(total) == v);
        let limit = vk::any_u32();
        let red = vk::any_usize();
        let want = if red as u128 > limit as u128 { 0 } else { limit - red as u32 };
        assert!(encode::reduce_limit(limit, red) == want);
        let codec = Codec::new();
        let s = vk::any_u32();
        codec.set_max_outbound_size(s);
        assert!(codec.max_outbound_size() == if s > 5 { s - 5 } else { s });
        vcover!(v == 127, "127");
        vcover!(v == 128, "128");
        vcover!(v == 16_383, "16383");
        vcover!(v == 16_384, "16384");
        vcover!(v == 2_097_151, "2097151");
        vcover!(v == 2_097_152, "2097152");
        vcover!(v == 268_435_455, "268435455");
        vcover!(red as u128 > limit as u128, "saturating");
    }
}

// ===================================================================================================
// C02 body layer (MQTT 5): the per-type decoders on ARBITRARY bytes.
// Oracle: a table-driven walk of the property section written from spec table 2.2.2.2 (identifier ->
// data type) and the per-packet lists of permitted properties; it reports the NAMED malformations of
// the property: unknown property for this packet type, repeated once-only property, value or inner
// length not fitting, invalid UTF-8, property length beyond the frame.
// ===================================================================================================
use crate::vh::spec_utf8;

#[derive(Clone, Copy, PartialEq)]
enum PK { B, U16, U32, Var, Str, Bin, Pair }

/// MQTT 5 table 2.2.2.2
fn spec_prop_kind(id: u8) -> Option<PK> {
    match id {
        0x01 | 0x17 | 0x19 | 0x24 | 0x25 | 0x28 | 0x29 | 0x2A => Some(PK::B),
        0x13 | 0x21 | 0x22 | 0x23 => Some(PK::U16),
        0x02 | 0x11 | 0x18 | 0x27 => Some(PK::U32),
        0x0B => Some(PK::Var),
        0x03 | 0x08 | 0x12 | 0x15 | 0x1A | 0x1C | 0x1F => Some(PK::Str),
        0x09 | 0x16 => Some(PK::Bin),
        0x26 => Some(PK::Pair),
        _ => None,
    }
}
const fn ids(list: &[u8]) -> u64 {
    let mut m = 0u64;
    let mut i = 0;
    while i < list.len() {
        m |= 1u64 << list[i];
        i += 1;
    }
    m
}
const P_ACK: u64 = ids(&[0x1F, 0x26]);
const P_SUBSCRIBE: u64 = ids(&[0x0B, 0x26]);
const P_UNSUBSCRIBE: u64 = ids(&[0x26]);
const P_DISCONNECT: u64 = ids(&[0x11, 0x1F, 0x26, 0x1C]);
const P_AUTH: u64 = ids(&[0x15, 0x16, 0x1F, 0x26]);
const P_CONNACK: u64 = ids(&[0x11, 0x21, 0x24, 0x25, 0x27, 0x12, 0x22, 0x1F, 0x26, 0x28, 0x29, 0x2A, 0x13, 0x1A, 0x1C, 0x15, 0x16]);
const P_CONNECT: u64 = ids(&[0x11, 0x21, 0x27, 0x22, 0x19, 0x17, 0x26, 0x15, 0x16]);
const P_WILL: u64 = ids(&[0x18, 0x01, 0x02, 0x03, 0x08, 0x09, 0x26]);
const P_PUBLISH: u64 = ids(&[0x01, 0x02, 0x23, 0x08, 0x09, 0x26, 0x0B, 0x03]);
const REPEATABLE: u64 = ids(&[0x26]);

fn spec_varint_at(d: &[u8], pos: usize, end: usize) -> Option<(u32, usize)> {
    let mut mult: u32 = 1;
    let mut val: u32 = 0;
    let mut k = 0;
    while k < 4 {
        if pos + k >= end {
            return None;
        }
        let e = d[pos + k];
        val += ((e & 127) as u32) * mult;
        if e & 128 == 0 {
            return Some((val, k + 1));
        }
        mult *= 128;
        k += 1;
    }
    None
}
fn spec_lp_at(d: &[u8], pos: usize, end: usize, utf8: bool) -> Option<usize> {
    if pos + 2 > end {
        return None;
    }
    let l = ((d[pos] as usize) << 8) | d[pos + 1] as usize;
    if pos + 2 + l > end {
        return None;
    }
    if utf8 && !spec_utf8(&d[pos + 2..pos + 2 + l]) {
        return None;
    }
    Some(2 + l)
}

/// walks the property section starting at `pos` (its length prefix) inside d[..len].
/// Returns Err(()) if one of the NAMED malformations is present, else Ok(end of the section)
fn spec_walk_props(d: &[u8], pos: usize, allowed: u64, repeatable: u64) -> Result<usize, ()> {
    let len = d.len();
    let (plen, vl) = match spec_varint_at(d, pos, len) {
        Some(x) => x,
        None => return Err(()), // property length incomplete / over-long
    };
    let start = pos + vl;
    if start + plen as usize > len {
        return Err(()); // property length contradicts the Remaining Length
    }
    let end = start + plen as usize;
    let mut p = start;
    let mut seen: u64 = 0;
    let mut guard = 0;
    while p < end && guard < 12 {
        let id = d[p];
        p += 1;
        if id >= 64 || (allowed >> id) & 1 == 0 {
            return Err(()); // unknown property (for this packet type)
        }
        if (seen >> id) & 1 == 1 && (repeatable >> id) & 1 == 0 {
            return Err(()); // once-only property repeated
        }
        seen |= 1u64 << id;
        let adv = match spec_prop_kind(id) {
            Some(PK::B) => if p + 1 <= end { Some(1) } else { None },
            Some(PK::U16) => if p + 2 <= end { Some(2) } else { None },
            Some(PK::U32) => if p + 4 <= end { Some(4) } else { None },
            Some(PK::Var) => spec_varint_at(d, p, end).map(|x| x.1),
            Some(PK::Str) => spec_lp_at(d, p, end, true),
            Some(PK::Bin) => spec_lp_at(d, p, end, false),
            Some(PK::Pair) => match spec_lp_at(d, p, end, true) {
                Some(a) => spec_lp_at(d, p + a, end, true).map(|b| a + b),
                None => None,
            },
            None => return Err(()),
        };
        match adv {
            Some(a) => p += a,
            None => return Err(()), // value does not fit / invalid UTF-8
        }
        guard += 1;
    }
    Ok(end)
}

/// (packet id, wire value of the reason code, user properties, reason string) of a decoded ack
fn ack_fields(p: &Packet) -> (u16, u8, &[UserProperty], &Option<ByteString>) {
    match p {
        Packet::PublishAck(a) | Packet::PublishReceived(a) => (a.packet_id.get(), puback_reason_num(a.reason_code), &a.properties, &a.reason_string),
        Packet::PublishRelease(a) | Packet::PublishComplete(a) => (a.packet_id.get(), if a.reason_code == PublishAck2Reason::Success { 0x00 } else { 0x92 }, &a.properties, &a.reason_string),
        _ => unreachable!(),
    }
}
/// spec value of a PUBACK/PUBREC reason (name -> value per table 3.4.2.1), independent of the crate's discriminants
fn puback_reason_num(r: PublishAckReason) -> u8 {
    match r {
        PublishAckReason::Success => 0x00,
        PublishAckReason::NoMatchingSubscribers => 0x10,
        PublishAckReason::UnspecifiedError => 0x80,
        PublishAckReason::ImplementationSpecificError => 0x83,
        PublishAckReason::NotAuthorized => 0x87,
        PublishAckReason::TopicNameInvalid => 0x90,
        PublishAckReason::PacketIdentifierInUse => 0x91,
        PublishAckReason::QuotaExceeded => 0x97,
        PublishAckReason::PayloadFormatInvalid => 0x99,
    }
}

/// accepted => stable: re-encode the decoded packet and decode again. The packet is re-wrapped in
/// its (literal) variant first: a `Packet` coming out of a `Result` has a symbolic discriminant for
/// CBMC, which would expand the encoders of all 14 packet types.
macro_rules! stable5 {
    ($r:expr, $variant:path, $first:expr) => {
        match &$r {
            Ok($variant(inner)) => {
                let p2 = $variant(inner.clone());
                let codec = Codec::new();
                match enc5(&codec, Encoded::Packet(p2.clone())) {
                    Ok(out) => assert!(dec_body5(&out, $first) == Ok(p2), "accepted packet is not stable under re-encoding"),
                    Err(_) => assert!(false, "accepted packet cannot be re-encoded"),
                }
            }
            Ok(_) => assert!(false, "decoder returned a packet of another type"),
            Err(_) => {}
        }
    };
}

fn spec_puback_reason(b: u8) -> bool {
    matches!(b, 0x00 | 0x10 | 0x80 | 0x83 | 0x87 | 0x90 | 0x91 | 0x97 | 0x99)
}
fn spec_pubrel_reason(b: u8) -> bool {
    matches!(b, 0x00 | 0x92)
}
fn spec_suback_reason(b: u8) -> bool {
    matches!(b, 0x00 | 0x01 | 0x02 | 0x80 | 0x83 | 0x87 | 0x8F | 0x91 | 0x97 | 0x9E | 0xA1 | 0xA2)
}
fn spec_unsuback_reason(b: u8) -> bool {
    matches!(b, 0x00 | 0x11 | 0x80 | 0x83 | 0x87 | 0x8F | 0x91)
}
/// 3.14.2.1 plus 0x8C, which the crate additionally tolerates in DISCONNECT (recorded leniency)
fn spec_disconnect_reason(b: u8) -> bool {
    matches!(b, 0x00 | 0x04 | 0x80..=0x83 | 0x87 | 0x89 | 0x8B | 0x8C | 0x8D..=0x90 | 0x93..=0xA2)
}
fn spec_auth_reason(b: u8) -> bool {
    matches!(b, 0x00 | 0x18 | 0x19)
}
fn spec_connack_reason(b: u8) -> bool {
    matches!(b, 0x00 | 0x80..=0x8A | 0x8C | 0x90 | 0x95 | 0x97 | 0x99..=0x9D | 0x9F)
}

macro_rules! bd5_ack {
    ($name:ident, $first:expr, $reason_ok:ident, $variant:path, $n:expr, $stab:expr) => {
        vharness! {
            fn $name() unwind(10) {
                let data: [u8; $n] = vk::any_bytes::<$n>();
                let len = vk::any_len($n);
                let d = &data[..len];
                let r = decode::decode_packet(vk::bytes_of(data, len), $first);
                // 3.4.2: id; optional reason (absent = 0x00); optional properties (only if a reason is present)
                let mut want_ok = len >= 2 && (d[0] != 0 || d[1] != 0);
                if want_ok && len >= 3 && !$reason_ok(d[2]) {
                    want_ok = false; // unknown reason code
                }
                if want_ok && len >= 4 {
                    match spec_walk_props(d, 3, P_ACK, REPEATABLE) {
                        Ok(end) => if end != len { want_ok = false; }, // bytes after the property section
                        Err(()) => want_ok = false,
                    }
                }
                if $stab {
                    stable5!(r, $variant, $first);
                    vcover!(r.is_ok() && len == $n, "accepted at the length bound");
                } else {
                    assert!(r.is_ok() == want_ok);
                    if let Ok(p) = &r {
                        // the decoded VALUE is what the independent reader finds in the same bytes
                        let (id, rc, ups, rs) = ack_fields(p);
                        let mut rd = Rd::new(d);
                        assert!(spec_check_ack(&mut rd, id, rc, ups, rs) && rd.at_end() && !rd.bad, "decoded fields differ from the bytes");
                    }
                    vcover!(r.is_ok() && len == 2, "short form (id only)");
                    vcover!(r.is_ok() && len == 3, "id and reason");
                    vcover!(r.is_ok() && len == $n, "with properties, at the length bound");
                    vcover!(r.is_err() && len >= 5 && d[4] != 0x1F && d[4] != 0x26, "unknown property rejected");
                }
            }
        }
    };
}
//@ props: C02 C01
//@ tier: quick
//@ functions: v5 decode::decode_packet, PublishAck::decode, ack_props::decode, take_properties, Option<T>::read_value, UserProperty::decode
//@ bounds: every body of 0..=7 arbitrary bytes
//@ unwindset: utf8_is_valid=6 spec_utf8=6 slice_eq=6 ack_props::decode=4 spec_walk_props=4 decode_variable_length_cursor=6 encode_opt_props=3 encoded_size_opt_props=3 clone=3 expect_lp=6 extend_from_slice=7
//@ mem: 10  timeout: 1500
//@ desc: v5 PUBACK body: accepted iff non-zero id, known reason code, well-formed property section holding only 0x1F (once) / 0x26, nothing after it; every named malformation is an error; the decoded fields are those an independent reader finds in the same bytes
bd5_ack!(bd5_puback, 0x40, spec_puback_reason, Packet::PublishAck, 7, false);
//@ props: C02
//@ tier: quick
//@ functions: v5 decode::decode_packet, PublishAck::decode, v5::Codec::encodev, EncodeLtd for PublishAck
//@ bounds: every body of 0..=7 arbitrary bytes
//@ unwindset: utf8_is_valid=6 spec_utf8=6 slice_eq=6 ack_props::decode=4 spec_walk_props=4 decode_variable_length_cursor=6 encode_opt_props=3 encoded_size_opt_props=3 clone=3 expect_lp=6 extend_from_slice=7
//@ mem: 10  timeout: 1500
//@ desc: v5 PUBACK body: whatever is accepted is stable (re-encode, decode again, equal)
bd5_ack!(bd5_puback_st, 0x40, spec_puback_reason, Packet::PublishAck, 7, true);
//@ props: C02 C01
//@ tier: quick
//@ functions: v5 decode::decode_packet, PublishAck2::decode, ack_props::decode
//@ bounds: every body of 0..=7 arbitrary bytes
//@ unwindset: utf8_is_valid=6 spec_utf8=6 slice_eq=6 ack_props::decode=4 spec_walk_props=4 decode_variable_length_cursor=6 encode_opt_props=3 encoded_size_opt_props=3 clone=3 expect_lp=6 extend_from_slice=7
//@ mem: 10  timeout: 1500
//@ desc: v5 PUBREL body (as bd5_puback; reason codes 0x00 / 0x92)
bd5_ack!(bd5_pubrel, 0x62, spec_pubrel_reason, Packet::PublishRelease, 7, false);
//@ props: C02
//@ tier: thorough
//@ functions: v5 decode::decode_packet, PublishAck2::decode, v5::Codec::encodev, EncodeLtd for PublishAck2
//@ bounds: every body of 0..=7 arbitrary bytes
//@ unwindset: utf8_is_valid=6 spec_utf8=6 slice_eq=6 ack_props::decode=4 spec_walk_props=4 decode_variable_length_cursor=6 encode_opt_props=3 encoded_size_opt_props=3 clone=3 expect_lp=6 extend_from_slice=7
//@ mem: 10  timeout: 1500
//@ desc: v5 PUBREL body: whatever is accepted is stable
bd5_ack!(bd5_pubrel_st, 0x62, spec_pubrel_reason, Packet::PublishRelease, 7, true);

macro_rules! bd5_suback {
    ($name:ident, $first:expr, $reason_ok:ident, $variant:path, $n:expr, $stab:expr) => {
        vharness! {
            fn $name() unwind(9) {
                let data: [u8; $n] = vk::any_bytes::<$n>();
                let len = vk::any_len($n);
                let d = &data[..len];
                let r = decode::decode_packet(vk::bytes_of(data, len), $first);
                let mut want_ok = len >= 3 && (d[0] != 0 || d[1] != 0);
                if want_ok {
                    match spec_walk_props(d, 2, P_ACK, REPEATABLE) {
                        Ok(end) => {
                            let mut i = end;
                            while i < len {
                                if !$reason_ok(d[i]) { want_ok = false; }
                                i += 1;
                            }
                        }
                        Err(()) => want_ok = false,
                    }
                }
                if $stab {
                    stable5!(r, $variant, $first);
                    vcover!(r.is_ok() && len == $n, "accepted at the length bound");
                } else {
                    assert!(r.is_ok() == want_ok);
                    vcover!(r.is_ok() && len == $n && d[2] == 0, "maximum number of reason codes");
                    vcover!(r.is_ok() && d[2] != 0, "with a property");
                    vcover!(r.is_err() && len == $n && d[2] == 0, "unknown reason code rejected");
                }
            }
        }
    };
}
//@ props: C02
//@ tier: quick
//@ functions: v5 decode::decode_packet, SubscribeAck::decode, ack_props::decode
//@ bounds: every body of 0..=7 arbitrary bytes (at most 4 reason codes: capacity of the list model)
//@ unwindset: utf8_is_valid=6 spec_utf8=6 slice_eq=6 ack_props::decode=4 spec_walk_props=4 decode_variable_length_cursor=6 encode_opt_props=3 encoded_size_opt_props=3 clone=3 expect_lp=6 extend_from_slice=7 SubscribeAck=6 UnsubscribeAck=6
//@ mem: 10  timeout: 1500
//@ desc: v5 SUBACK body: accepted iff non-zero id, well-formed property section (0x1F once / 0x26), every reason code from spec table 3.9.3
bd5_suback!(bd5_suback, 0x90, spec_suback_reason, Packet::SubscribeAck, 7, false);
//@ props: C02
//@ tier: thorough
//@ functions: v5 decode::decode_packet, SubscribeAck::decode, v5::Codec::encodev, EncodeLtd for SubscribeAck
//@ bounds: every body of 0..=6 arbitrary bytes
//@ unwindset: utf8_is_valid=6 spec_utf8=6 slice_eq=6 ack_props::decode=4 spec_walk_props=4 decode_variable_length_cursor=6 encode_opt_props=3 encoded_size_opt_props=3 clone=3 expect_lp=6 extend_from_slice=7 SubscribeAck=6 UnsubscribeAck=6
//@ mem: 10  timeout: 1500
//@ desc: v5 SUBACK body: whatever is accepted is stable
bd5_suback!(bd5_suback_st, 0x90, spec_suback_reason, Packet::SubscribeAck, 6, true);
//@ props: C02
//@ tier: quick
//@ functions: v5 decode::decode_packet, UnsubscribeAck::decode, ack_props::decode
//@ bounds: every body of 0..=7 arbitrary bytes
//@ unwindset: utf8_is_valid=6 spec_utf8=6 slice_eq=6 ack_props::decode=4 spec_walk_props=4 decode_variable_length_cursor=6 encode_opt_props=3 encoded_size_opt_props=3 clone=3 expect_lp=6 extend_from_slice=7 SubscribeAck=6 UnsubscribeAck=6
//@ mem: 10  timeout: 1500
//@ desc: v5 UNSUBACK body (as bd5_suback; reason codes from spec table 3.11.3)
bd5_suback!(bd5_unsuback, 0xB0, spec_unsuback_reason, Packet::UnsubscribeAck, 7, false);
//@ props: C02
//@ tier: thorough
//@ functions: v5 decode::decode_packet, UnsubscribeAck::decode, v5::Codec::encodev
//@ bounds: every body of 0..=6 arbitrary bytes
//@ unwindset: utf8_is_valid=6 spec_utf8=6 slice_eq=6 ack_props::decode=4 spec_walk_props=4 decode_variable_length_cursor=6 encode_opt_props=3 encoded_size_opt_props=3 clone=3 expect_lp=6 extend_from_slice=7 SubscribeAck=6 UnsubscribeAck=6
//@ mem: 10  timeout: 1500
//@ desc: v5 UNSUBACK body: whatever is accepted is stable
bd5_suback!(bd5_unsuback_st, 0xB0, spec_unsuback_reason, Packet::UnsubscribeAck, 6, true);

macro_rules! bd5_reason_props {
    ($name:ident, $first:expr, $reason_ok:ident, $allowed:expr, $variant:path, $n:expr, $stab:expr) => {
        vharness! {
            fn $name() unwind(11) {
                let data: [u8; $n] = vk::any_bytes::<$n>();
                let len = vk::any_len($n);
                let d = &data[..len];
                let r = decode::decode_packet(vk::bytes_of(data, len), $first);
                // 3.14.2 / 3.15.2: empty body = reason 0x00, no properties; reason alone; reason + properties
                let mut want_ok = true;
                if len >= 1 && !$reason_ok(d[0]) {
                    want_ok = false;
                }
                if want_ok && len >= 2 {
                    match spec_walk_props(d, 1, $allowed, REPEATABLE) {
                        Ok(end) => if end != len { want_ok = false; },
                        Err(()) => want_ok = false,
                    }
                }
                if $stab {
                    stable5!(r, $variant, $first);
                    vcover!(r.is_ok() && len == $n, "accepted at the length bound");
                } else {
                    assert!(r.is_ok() == want_ok);
                    vcover!(r.is_ok() && len == 0, "empty body");
                    vcover!(r.is_ok() && len == $n, "properties at the length bound");
                    vcover!(r.is_err() && len >= 1 && $reason_ok(d[0]), "malformed properties rejected");
                }
            }
        }
    };
}
//@ props: C02 C15
//@ tier: quick
//@ functions: v5 decode::decode_packet, Disconnect::decode, take_properties, Option<T>::read_value
//@ bounds: every body of 0..=8 arbitrary bytes
//@ unwindset: utf8_is_valid=7 spec_utf8=7 slice_eq=7 Disconnect=5 Auth=5 spec_walk_props=5 decode_variable_length_cursor=6 encode_opt_props=3 encoded_size_opt_props=3 clone=3 expect_lp=7 extend_from_slice=8
//@ mem: 10  timeout: 1500
//@ desc: v5 DISCONNECT body: accepted iff known reason code and a well-formed property section holding only 0x11 0x1C 0x1F (each once) / 0x26, nothing after it. Recorded leniency: reason 0x8C is accepted although 3.14.2.1 does not list it
bd5_reason_props!(bd5_disconnect, 0xE0, spec_disconnect_reason, P_DISCONNECT, Packet::Disconnect, 8, false);
//@ props: C02
//@ tier: thorough
//@ functions: v5 decode::decode_packet, Disconnect::decode, v5::Codec::encodev, EncodeLtd for Disconnect
//@ bounds: every body of 0..=7 arbitrary bytes
//@ unwindset: utf8_is_valid=7 spec_utf8=7 slice_eq=7 Disconnect=5 Auth=5 spec_walk_props=5 decode_variable_length_cursor=6 encode_opt_props=3 encoded_size_opt_props=3 clone=3 expect_lp=7 extend_from_slice=8
//@ mem: 10  timeout: 1500
//@ desc: v5 DISCONNECT body: whatever is accepted is stable
bd5_reason_props!(bd5_disconnect_st, 0xE0, spec_disconnect_reason, P_DISCONNECT, Packet::Disconnect, 7, true);
//@ props: C02
//@ tier: quick
//@ functions: v5 decode::decode_packet, Auth::decode
//@ bounds: every body of 0..=8 arbitrary bytes
//@ unwindset: utf8_is_valid=7 spec_utf8=7 slice_eq=7 Disconnect=5 Auth=5 spec_walk_props=5 decode_variable_length_cursor=6 encode_opt_props=3 encoded_size_opt_props=3 clone=3 expect_lp=7 extend_from_slice=8
//@ mem: 10  timeout: 1500
//@ desc: v5 AUTH body: accepted iff reason in {0x00,0x18,0x19} and a well-formed property section holding only 0x15 0x16 0x1F (each once) / 0x26
bd5_reason_props!(bd5_auth, 0xF0, spec_auth_reason, P_AUTH, Packet::Auth, 8, false);
//@ props: C02
//@ tier: thorough
//@ functions: v5 decode::decode_packet, Auth::decode, v5::Codec::encodev, EncodeLtd for Auth
//@ bounds: every body of 0..=7 arbitrary bytes
//@ unwindset: utf8_is_valid=7 spec_utf8=7 slice_eq=7 Disconnect=5 Auth=5 spec_walk_props=5 decode_variable_length_cursor=6 encode_opt_props=3 encoded_size_opt_props=3 clone=3 expect_lp=7 extend_from_slice=8
//@ mem: 24  timeout: 2400
//@ desc: v5 AUTH body: whatever is accepted is stable
bd5_reason_props!(bd5_auth_st, 0xF0, spec_auth_reason, P_AUTH, Packet::Auth, 7, true);

vharness! {
    //@ props: C02
    //@ tier: quick
    //@ functions: v5 decode::decode_packet (all 16 first-byte values x reserved flag bits)
    //@ bounds: every first byte 0..=255 (PUBLISH excluded: streaming arms) with an EMPTY body
    //@ desc: v5 dispatch on the first byte: only the exact type+flags values of the specification are recognised; type 0 is unsupported; PINGREQ/PINGRESP/DISCONNECT/AUTH accept the empty body, all others reject it
    fn bd5_dispatch() unwind(6) {
        let first = vk::any_u8();
        vk::assume(!(first >= 0x30 && first <= 0x3f));
        let r = decode::decode_packet(Bytes::new(), first);
        let known = matches!(first, 0x10 | 0x20 | 0x40 | 0x50 | 0x62 | 0x70 | 0x82 | 0x90 | 0xA2 | 0xB0 | 0xC0 | 0xD0 | 0xE0 | 0xF0);
        if !known {
            assert!(r == Err(crate::error::DecodeError::UnsupportedPacketType));
        }
        let empty_ok = matches!(first, 0xC0 | 0xD0 | 0xE0 | 0xF0);
        assert!(r.is_ok() == empty_ok);
        vcover!(r.is_ok(), "empty body accepted");
        vcover!(known && r.is_err(), "empty body rejected");
    }
}

vharness! {
    //@ props: C02
    //@ tier: thorough
    //@ functions: v5 decode::decode_packet, Subscribe::decode, SubscriptionOptions::decode, decode_variable_length_cursor
    //@ bounds: every body of 0..=9 arbitrary bytes
    //@ unwindset: utf8_is_valid=7 spec_utf8=7 slice_eq=7 Subscribe=5 spec_walk_props=5 decode_variable_length_cursor=6 clone=4 expect_lp=7
    //@ mem: 10  timeout: 1500
    //@ desc: v5 SUBSCRIBE body: zero id, malformed / unknown / repeated properties (0x0B once, 0x26), subscription identifier 0, truncated filters, invalid UTF-8, QoS 3 and retain-handling 3 are errors; accepted otherwise (reserved option bits 6-7 are ignored: leniency)
    fn bd5_subscribe() unwind(11) {
        let data: [u8; 9] = vk::any_bytes::<9>();
        let len = vk::any_len(9);
        let d = &data[..len];
        let r = decode::decode_packet(vk::bytes_of(data, len), 0x82);
        let mut want_ok = len >= 3 && (d[0] != 0 || d[1] != 0);
        if want_ok {
            match spec_walk_props(d, 2, P_SUBSCRIBE, REPEATABLE) {
                Ok(end) => {
                    // 3.8.2.1.2: a Subscription Identifier of 0 is a protocol error
                    let (_pl, vl) = spec_varint_at(d, 2, len).unwrap();
                    let mut p = 2 + vl;
                    let mut g = 0;
                    while p < end && g < 4 {
                        if d[p] == 0x0B {
                            let (v, k) = spec_varint_at(d, p + 1, end).unwrap();
                            if v == 0 { want_ok = false; }
                            p += 1 + k;
                        } else {
                            let a = spec_lp_at(d, p + 1, end, true).unwrap();
                            let b = spec_lp_at(d, p + 1 + a, end, true).unwrap();
                            p += 1 + a + b;
                        }
                        g += 1;
                    }
                    let mut q = end;
                    let mut g = 0;
                    while want_ok && q < len && g < 4 {
                        match spec_lp_at(d, q, len, true) {
                            Some(a) => {
                                q += a;
                                if q >= len { want_ok = false; }
                                else {
                                    let o = d[q];
                                    if o & 3 == 3 || (o >> 4) & 3 == 3 { want_ok = false; }
                                    q += 1;
                                }
                            }
                            None => want_ok = false,
                        }
                        g += 1;
                    }
                }
                Err(()) => want_ok = false,
            }
        }
        assert!(r.is_ok() == want_ok);
        vcover!(r.is_ok() && len == 9, "accepted at the length bound");
        vcover!(r.is_ok() && len > 3 && d[2] >= 2 && d[3] == 0x0B, "with a subscription identifier");
        vcover!(r.is_err() && len > 3, "rejected");
    }
}

vharness! {
    //@ props: C02
    //@ tier: quick
    //@ functions: v5 decode::decode_packet, Unsubscribe::decode
    //@ bounds: every body of 0..=8 arbitrary bytes
    //@ unwindset: utf8_is_valid=6 spec_utf8=6 slice_eq=6 Unsubscribe=5 spec_walk_props=5 decode_variable_length_cursor=6 clone=4 expect_lp=6
    //@ mem: 10  timeout: 1500
    //@ desc: v5 UNSUBSCRIBE body: accepted iff non-zero id, property section holding only 0x26, every filter a complete well-formed UTF-8 string
    fn bd5_unsubscribe() unwind(10) {
        let data: [u8; 8] = vk::any_bytes::<8>();
        let len = vk::any_len(8);
        let d = &data[..len];
        let r = decode::decode_packet(vk::bytes_of(data, len), 0xA2);
        let mut want_ok = len >= 3 && (d[0] != 0 || d[1] != 0);
        if want_ok {
            match spec_walk_props(d, 2, P_UNSUBSCRIBE, REPEATABLE) {
                Ok(end) => {
                    let mut q = end;
                    let mut g = 0;
                    while want_ok && q < len && g < 4 {
                        match spec_lp_at(d, q, len, true) {
                            Some(a) => q += a,
                            None => want_ok = false,
                        }
                        g += 1;
                    }
                }
                Err(()) => want_ok = false,
            }
        }
        assert!(r.is_ok() == want_ok);
        vcover!(r.is_ok() && len == 8, "accepted at the length bound");
        vcover!(r.is_err() && len > 3, "rejected");
    }
}

macro_rules! bd5_connack {
    ($name:ident, $n:expr) => {
        vharness! {
            fn $name() unwind(11) {
                let data: [u8; $n] = vk::any_bytes::<$n>();
                let len = vk::any_len($n);
                let d = &data[..len];
                let r = decode::decode_packet(vk::bytes_of(data, len), 0x20);
                let mut named_bad = len < 3 || d[0] & 0xFE != 0 || !spec_connack_reason(d[1]);
                if !named_bad {
                    match spec_walk_props(d, 2, P_CONNACK, REPEATABLE) {
                        Ok(end) => if end != len { named_bad = true; },
                        Err(()) => named_bad = true,
                    }
                }
                if named_bad {
                    assert!(r.is_err());
                }
                vcover!(r.is_ok() && len == $n, "accepted at the length bound");
                vcover!($n < 6 || (r.is_err() && !named_bad), "rejected for a property VALUE (e.g. receive maximum 0, flag byte > 1)");
                vcover!($n < 5 || (named_bad && len >= 5 && d[1] == 0 && d[0] == 0), "named malformation in the properties");
            }
        }
    };
}
//@ props: C02
//@ tier: thorough
//@ functions: v5 decode::decode_packet, ConnectAck::decode, take_properties, Option<T>::read_value
//@ bounds: every body of 0..=5 arbitrary bytes (flags, reason, property length and up to two property bytes: every property id with a missing or one-byte value)
//@ unwindset: utf8_is_valid=6 spec_utf8=6 slice_eq=6 ConnectAck=6 spec_walk_props=6 decode_variable_length_cursor=6 encode_opt_props=3 encoded_size_opt_props=3 clone=3 expect_lp=6 spec_check_connack_props=8
//@ mem: 12  timeout: 900
//@ desc: v5 CONNACK body, short bodies: never panics; reserved acknowledge flags, unknown reason code, unknown property id, a property whose value is cut off by the end of the section, trailing bytes are errors
bd5_connack!(bd5_connack_5, 5);
//@ props: C02
//@ tier: thorough
//@ functions: v5 decode::decode_packet, ConnectAck::decode, take_properties, Option<T>::read_value
//@ bounds: every body of 0..=4 arbitrary bytes (flags, reason, property length and ONE property byte: every property id with its value cut off)
//@ unwindset: utf8_is_valid=6 spec_utf8=6 slice_eq=6 ConnectAck=6 spec_walk_props=6 decode_variable_length_cursor=6 encode_opt_props=3 encoded_size_opt_props=3 clone=3 expect_lp=6 spec_check_connack_props=8
//@ mem: 12  timeout: 900
//@ desc: v5 CONNACK body, shortest bodies: never panics; reserved acknowledge flags, unknown reason code, a property identifier whose value is cut off by the end of the section, trailing bytes are errors
bd5_connack!(bd5_connack_4, 4);
//@ props: C02
//@ tier: thorough
//@ functions: v5 decode::decode_packet, ConnectAck::decode, take_properties, Option<T>::read_value
//@ bounds: every body of 0..=9 arbitrary bytes
//@ unwindset: utf8_is_valid=6 spec_utf8=6 slice_eq=6 ConnectAck=6 spec_walk_props=6 decode_variable_length_cursor=6 encode_opt_props=3 encoded_size_opt_props=3 clone=3 expect_lp=6 spec_check_connack_props=8
//@ mem: 12  timeout: 1800
//@ desc: v5 CONNACK body: reserved acknowledge flags, unknown reason code, any named property malformation (unknown id, repeated once-only id, value not fitting, invalid UTF-8, length beyond the frame) and trailing bytes are errors
bd5_connack!(bd5_connack, 9);
