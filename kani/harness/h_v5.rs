//! Harnesses mounted inside `v5::codec`.
use super::*;
use crate::vk;
use ntex_bytes::{BytePages, Bytes, BytesMut, ByteString};

macro_rules! body_probe {
    ($name:ident, $fb:expr, $n:expr, $uw:expr) => {
        vharness! {
            fn $name() unwind($uw) {
                let data: [u8; $n] = vk::any_bytes::<$n>();
                let len = vk::any_len($n);
                let buf = vk::bytes_of(data, len);
                let r = decode::decode_packet(buf, $fb);
                vcover!(matches!(r, Ok(_)), "ok");
                vcover!(matches!(r, Err(_)), "err");
            }
        }
    };
}
body_probe!(p5_puback8, 0x40, 8, 10);
body_probe!(p5_puback12, 0x40, 12, 14);
body_probe!(p5_sub10, 0x82, 10, 12);
body_probe!(p5_disc10, 0xE0, 10, 12);
body_probe!(p5_connack10, 0x20, 10, 12);
