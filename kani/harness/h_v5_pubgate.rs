//! Harnesses for the synchronous admission block of the MQTT 5 server dispatcher's PUBLISH arm
//! (C11 inbound id reservation, C12 receive maximum, C17 topic aliases), extracted verbatim from
//! src/v5/dispatcher.rs into `Dispatcher::publish_gate`. ONE inbound PUBLISH against an ARBITRARY
//! per-connection state (inductive step).
use super::*;
use crate::{vio, vk};

fn nz(v: u16) -> num::NonZeroU16 {
    vk::assume(v != 0);
    num::NonZeroU16::new(v).unwrap()
}
fn topic_of(k: u8) -> ByteString {
    match k {
        0 => ByteString::new(),
        1 => ByteString::from_static("a"),
        2 => ByteString::from_static("b"),
        _ => ByteString::from_static("c/d"),
    }
}
fn any_qos() -> QoS {
    let k = vk::any_u8();
    vk::assume(k < 3);
    match k {
        0 => QoS::AtMostOnce,
        1 => QoS::AtLeastOnce,
        _ => QoS::ExactlyOnce,
    }
}
/// What a harness sees of "the dispatcher receives one PUBLISH". Kani flavour: the extracted admission
/// block (`Dispatcher::publish_gate`). Replay flavour: the REAL `Dispatcher` of src/v5/dispatcher.rs behind
/// a real ntex-service pipeline, with a publish handler that records the topic it is handed and then
/// stays pending (so that the reservation made on receipt can still be observed).
#[derive(PartialEq, Debug)]
enum Verdict {
    /// reached the publish handler, with this topic
    Delivered(ByteString),
    /// neither delivered nor an error (answered directly or dropped)
    NotDelivered,
    /// the connection ends: DISCONNECT reason the error maps to
    Refused(u8),
}
#[cfg(kani)]
struct Gate {
    d: Dispatcher,
}
#[cfg(kani)]
impl Gate {
    fn new(io: &vio::IoH) -> Gate {
        let sink = Rc::new(MqttShared::new(io.ioref(), codec::Codec::new(), Rc::new(Default::default())));
        Gate {
            d: Dispatcher {
                inner: Rc::new(Inner {
                    sink,
                    info: RefCell::new(PublishInfo { inflight: HashSet::default(), aliases: HashMap::default() }),
                }),
                cfg: GateCfg { handle_qos_after_disconnect: None },
            },
        }
    }
    fn sink(&self) -> &MqttShared {
        &self.d.inner.sink
    }
    fn with_info<R>(&self, f: impl FnOnce(&mut PublishInfo) -> R) -> R {
        f(&mut self.d.inner.info.borrow_mut())
    }
    fn publish(&self, mut p: codec::Publish) -> Verdict {
        let pid = p.packet_id;
        match self.d.publish_gate::<()>(&mut p, pid) {
            Ok(Some(_)) => Verdict::Delivered(p.topic.clone()),
            Ok(None) => Verdict::NotDelivered,
            Err(DispatcherError::Protocol(e)) => Verdict::Refused(u8::from(codec::Disconnect::from_proto_error(&e).reason_code)),
            Err(_) => Verdict::Refused(0),
        }
    }
}
#[cfg(not(kani))]
mod real {
    use super::super::*;
    use super::Verdict;
    use crate::vio;
    use ntex_service::fn_service;
    use std::cell::RefCell;
    use std::future::Future;
    use std::task::Poll;

    pub(super) struct TestError;
    impl TryFrom<TestError> for PublishAck {
        type Error = TestError;
        fn try_from(err: TestError) -> Result<Self, Self::Error> {
            Err(err)
        }
    }
    type Seen = Rc<RefCell<Option<ByteString>>>;
    pub(super) struct Gate {
        seen: Seen,
        shared: Rc<MqttShared>,
        call: Box<dyn Fn(codec::Publish) -> Option<Result<Option<Encoded>, DispatcherError<TestError>>>>,
        info: Box<dyn Fn(&mut dyn FnMut(&mut PublishInfo))>,
    }
    impl Gate {
        pub(super) fn new(io: &vio::IoH) -> Gate {
            let seen: Seen = Rc::new(RefCell::new(None));
            let seen2 = seen.clone();
            let shared = Rc::new(MqttShared::new(io.ioref(), codec::Codec::default(), Rc::default()));
            let cfg: ntex_service::cfg::SharedCfg = ntex_service::cfg::SharedCfg::new("replay").add(MqttServiceConfig::new()).into();
            let disp = Rc::new(Pipeline::new(Dispatcher::new(
                shared.clone(),
                fn_service(move |msg: Publish| {
                    *seen2.borrow_mut() = Some(ByteString::from(msg.publish_topic().to_string()));
                    async move {
                        std::future::pending::<()>().await;
                        Ok::<_, TestError>(msg.ack())
                    }
                }),
                Pipeline::new(fn_service(async |msg: ProtocolMessage| Ok::<_, DispatcherError<TestError>>(msg.ack()))),
                cfg.get(),
            )));
            let d2 = disp.clone();
            let d3 = disp.clone();
            Gate {
                seen,
                shared,
                call: Box::new(move |p| {
                    let fut = d2.call(Decoded::Publish(p, ntex_bytes::Bytes::new(), 0));
                    let mut fut = Box::pin(fut);
                    let mut cx = vio::noop_cx();
                    match fut.as_mut().poll(&mut cx) {
                        Poll::Ready(r) => Some(r),
                        Poll::Pending => {
                            // the handler is running: keep the call alive
                            std::mem::forget(fut);
                            None
                        }
                    }
                }),
                info: Box::new(move |f| f(&mut d3.get_ref().inner.info.borrow_mut())),
            }
        }
        pub(super) fn sink(&self) -> &MqttShared {
            &self.shared
        }
        pub(super) fn with_info<R>(&self, f: impl FnOnce(&mut PublishInfo) -> R) -> R {
            let mut f = Some(f);
            let mut out = None;
            (self.info)(&mut |i| {
                out = Some((f.take().unwrap())(i));
            });
            out.unwrap()
        }
        pub(super) fn publish(&self, p: codec::Publish) -> Verdict {
            *self.seen.borrow_mut() = None;
            let r = (self.call)(p);
            if let Some(t) = self.seen.borrow_mut().take() {
                return Verdict::Delivered(t);
            }
            match r {
                None | Some(Ok(_)) => Verdict::NotDelivered,
                Some(Err(DispatcherError::Protocol(e))) => Verdict::Refused(u8::from(codec::Disconnect::from_proto_error(&e).reason_code)),
                Some(Err(_)) => Verdict::Refused(0),
            }
        }
    }
}
#[cfg(not(kani))]
use real::Gate;

/// summary encoder, as in h_v5_shared.rs: first byte + packet id
#[cfg(kani)]
pub(crate) fn stub_encodev_gate(_c: &codec::Codec, item: Encoded, dst: &mut ntex_bytes::BytePages) -> Result<(), crate::error::EncodeError> {
    let (first, id, reason): (u8, u16, u8) = match &item {
        Encoded::Packet(codec::Packet::PublishAck(a)) => (0x40, a.packet_id.get(), u8::from(a.reason_code)),
        _ => (0xFF, 0, 0),
    };
    dst.extend_from_slice(&[first, 3, (id >> 8) as u8, id as u8, reason]);
    std::mem::forget(item);
    Ok(())
}

/// one PUBLISH with `n` (literal) identifiers already reserved
fn gate_ids(n: usize) {
    vio::with_io(move |io| {
        let d = Gate::new(io);
        let rmax = vk::any_u16();
        d.sink().set_receive_max(rmax);
        let maxq = any_qos();
        d.sink().set_max_qos(maxq);
        // ids reserved by unfinished exchanges
        let mut ids = [0u16; 3];
        let mut i = 0;
        while i < n {
            let id = nz(vk::any_u16());
            let mut j = 0;
            while j < i {
                vk::assume(ids[j] != id.get());
                j += 1;
            }
            ids[i] = id.get();
            d.with_info(|i| i.inflight.insert(id));
            i += 1;
        }
        let qos = any_qos();
        let pid = if qos == QoS::AtMostOnce { None } else { Some(nz(vk::any_u16())) };
        let mut p = codec::Publish::default();
        p.qos = qos;
        p.packet_id = pid;
        p.retain = vk::any_bool();
        p.topic = topic_of(1);
        let in_use = match pid {
            Some(x) => {
                let mut f = false;
                let mut j = 0;
                while j < n {
                    if ids[j] == x.get() {
                        f = true;
                    }
                    j += 1;
                }
                f
            }
            None => false,
        };
        let r = d.publish(p);
        let (cnt, has) = d.with_info(|i| (i.inflight.len(), pid.map_or(false, |x| i.inflight.contains(&x))));
        match pid {
            None => {
                // QoS 0: no identifier, nothing reserved, always delivered
                assert!(matches!(r, Verdict::Delivered(_)));
                assert!(cnt == n);
                assert!(io.frames() == 0);
            }
            Some(x) => {
                let over = rmax != 0 && n >= rmax as usize;
                let qos_bad = qos > maxq;
                if over {
                    // more unacknowledged QoS>0 publishes than the advertised Receive Maximum: 0x93
                    assert!(r == Verdict::Refused(0x93), "receive maximum exceeded: PUBLISH not refused with reason 0x93");
                    assert!(cnt == n && io.frames() == 0);
                } else if qos_bad {
                    assert!(matches!(r, Verdict::Refused(_)), "QoS above the granted maximum accepted");
                    assert!(cnt == n);
                } else if in_use {
                    // identifier of an unfinished exchange: never delivered, answered with "in use"
                    assert!(r == Verdict::NotDelivered, "PUBLISH with an identifier in use reached the handler");
                    assert!(io.frames() == 1 && io.frame_first(0) == 0x40 && io.frame_id(0) == x.get(), "no PUBACK(identifier in use) for its id");
                    assert!(cnt == n && has, "reservation of the original exchange lost");
                } else {
                    // within the limit: never refused for that reason; the id is now reserved
                    assert!(matches!(r, Verdict::Delivered(_)), "a peer within its Receive Maximum was refused");
                    assert!(has && cnt == n + 1, "identifier not reserved on receipt");
                    assert!(io.frames() == 0);
                }
                vcover!(n == 0 || over, "receive maximum exceeded");
                vcover!(n == 0 || (!over && !qos_bad && in_use), "identifier in use");
                vcover!(!over && !qos_bad && !in_use, "admitted, reserved");
            }
        }
        std::mem::forget(d);
    })
}
macro_rules! gate_ids_inst {
    ($name:ident, $n:expr) => {
        vharness! {
            //@ props: C11 C12
            //@ env: VERIF_MVEC_CAP=1
            //@ tier: quick
            //@ stubs: yes
            //@ functions: v5::dispatcher - the admission block of Service<Decoded>::call / Decoded::Publish (extracted verbatim as Dispatcher::publish_gate), MqttShared::{receive_max, max_qos, encode_packet}
            //@ bounds: ONE inbound PUBLISH (any QoS, any non-zero id for QoS>0, retain any) against a literal number of reserved identifiers per instance (0..=3, values u16 full width, distinct); advertised Receive Maximum any u16 (0 = unlimited); granted maximum QoS any
            //@ assumes: v5 encoder abstracted to first byte + packet id (+ reason code of PUBACK)
            //@ mem: 12  timeout: 900
            //@ desc: inbound admission step: more unacknowledged QoS>0 publishes than the advertised Receive Maximum is refused with the dedicated reason 0x93 and a peer within it is never refused for that reason; an identifier still reserved is never delivered and answered with PUBACK(identifier in use) while the original reservation stays; otherwise the identifier is reserved on receipt; QoS 0 reserves nothing
            #[kani::stub(<codec::Codec as ntex_codec::Encoder>::encodev, stub_encodev_gate)]
            fn $name() unwind(7) {
                gate_ids($n)
            }
        }
    };
}
gate_ids_inst!(gate5_ids_n0, 0);
gate_ids_inst!(gate5_ids_n1, 1);
gate_ids_inst!(gate5_ids_n3, 3);
//@ tier: thorough
gate_ids_inst!(gate5_ids_n2, 2);

/// topic aliases: `nb` (literal 0/1) alias already bound
fn gate_alias(nb: usize) {
    vio::with_io(move |io| {
        let d = Gate::new(io);
        let amax = vk::any_u16();
        d.sink().set_topic_alias_max(amax);
        let bound = nz(vk::any_u16());
        let bound_topic = vk::any_u8();
        vk::assume(bound_topic >= 1 && bound_topic <= 3);
        if nb > 0 {
            d.with_info(|i| i.aliases.insert(bound, topic_of(bound_topic)));
        }
        let alias = nz(vk::any_u16());
        let tk = vk::any_u8();
        vk::assume(tk <= 3);
        let mut p = codec::Publish::default();
        p.qos = QoS::AtMostOnce;
        p.topic = topic_of(tk);
        p.properties.topic_alias = if vk::any_bool() { Some(alias) } else { None };
        let had_alias = p.properties.topic_alias.is_some();
        // (a non-wildcard, non-empty or empty topic: the wildcard check precedes the admission block)
        let r = d.publish(p);
        let known = nb > 0 && alias == bound;
        let (nal, now, other) = d.with_info(|i| {
            (
                i.aliases.len(),
                i.aliases.get(&alias).map(|t| t.as_str() == topic_of(tk).as_str()),
                i.aliases.get(&bound).map(|t| t.as_str() == topic_of(bound_topic).as_str()),
            )
        });
        if !had_alias {
            assert!(r == Verdict::Delivered(topic_of(tk)), "topic changed although no alias was used");
            assert!(nal == nb);
        } else if tk == 0 {
            // alias only: resolved to the topic most recently bound, or the connection ends
            if known {
                assert!(r == Verdict::Delivered(topic_of(bound_topic)), "alias resolved to the wrong topic");
            } else {
                assert!(r == Verdict::Refused(0x94), "PUBLISH with an unbound alias not refused as Topic Alias invalid");
            }
            assert!(nal == nb);
        } else {
            // topic and alias: (re)binds
            if !known && alias.get() > amax {
                assert!(matches!(r, Verdict::Refused(_)), "alias above the advertised Topic Alias Maximum accepted");
                assert!(nal == nb, "alias above the maximum was bound");
            } else {
                assert!(r == Verdict::Delivered(topic_of(tk)));
                assert!(now == Some(true), "alias not bound to the topic just sent");
            }
            if nb > 0 && alias != bound {
                assert!(other == Some(true), "binding of another alias disturbed");
            }
        }
        vcover!(nb == 0 || (had_alias && tk == 0 && known), "resolved");
        vcover!(nb == 0 || (had_alias && tk != 0 && known), "rebound");
        std::mem::forget(d);
    })
}
macro_rules! gate_alias_inst {
    ($name:ident, $nb:expr, $cov:expr) => {
        vharness! {
            //@ props: C17
            //@ env: VERIF_MVEC_CAP=1
            //@ tier: quick
            //@ stubs: yes
            //@ functions: v5::dispatcher - the admission block of Decoded::Publish (extracted verbatim): alias lookup / (re)binding / limit, MqttShared::topic_alias_max
            //@ bounds: ONE inbound QoS 0 PUBLISH with or without a topic alias (any non-zero u16), topic empty or one of three names; a literal number (0/1) of aliases already bound (any alias value, any of three topics); advertised Topic Alias Maximum any u16
            //@ assumes: none
            //@ mem: 12  timeout: 900
            //@ desc: alias resolution step: alias only => delivered with the topic most recently bound to that alias, an unbound alias ends the connection with Topic Alias invalid (0x94); topic and alias => (re)binds exactly that alias, a NEW alias above the advertised maximum is refused and not bound; other bindings are untouched; no alias => topic untouched
            #[kani::stub(<codec::Codec as ntex_codec::Encoder>::encodev, stub_encodev_gate)]
            fn $name() unwind(7) {
                gate_alias($nb)
            }
        }
    };
}
gate_alias_inst!(gate5_alias_b0, 0, false);
gate_alias_inst!(gate5_alias_b1, 1, true);

vharness! {
    //@ twin_replay: yes
    //@ props: C11 C17 C12
    //@ env: VERIF_MVEC_CAP=1
    //@ tier: quick
    //@ expect: fail
    //@ stubs: yes
    //@ desc: reachability twin of the admission harnesses (claims a QoS 1 PUBLISH with a fresh identifier is never delivered)
    #[kani::stub(<codec::Codec as ntex_codec::Encoder>::encodev, stub_encodev_gate)]
    fn twin_gate5() unwind(7) {
        vio::with_io(move |io| {
            let d = Gate::new(io);
            d.sink().set_receive_max(0);
            let mut p = codec::Publish::default();
            p.qos = QoS::AtLeastOnce;
            p.packet_id = Some(nz(vk::any_u16()));
            p.topic = topic_of(1);
            let r = d.publish(p);
            assert!(!matches!(r, Verdict::Delivered(_)));
            std::mem::forget(d);
        })
    }
}
