//! Harnesses mounted inside `utils` (variable-byte-integer kernels, length-prefixed fields).
use super::*;
use crate::vk;
use ntex_bytes::{BytePages, Bytes};

/// MQTT 1.5.5 variable byte integer, written from the specification's pseudo-code
/// (independent of the crate's match-on-ranges implementation).
pub(crate) fn spec_varint(mut x: u32, out: &mut [u8; 4]) -> usize {
    let mut n = 0;
    loop {
        let mut b = (x % 128) as u8;
        x /= 128;
        if x > 0 {
            b |= 128;
        }
        out[n] = b;
        n += 1;
        if x == 0 {
            break;
        }
    }
    n
}

vharness! {
    //@ props: C01 C09
    //@ tier: quick
    //@ functions: utils::write_variable_length, utils::decode_variable_length, utils::decode_variable_length_cursor
    //@ bounds: v: u32 over the whole legal domain 0..=268435455 (full width, decided by SAT, not enumerated); 2 arbitrary trailing bytes
    //@ assumes: v <= 268435455 (MQTT 1.5.5 maximum)
    //@ desc: variable byte integer: encode == spec layout byte for byte, decode(encode(v)) == (v, spec length), trailing bytes untouched
    fn rt_varint_all() unwind(6) {
        let v = vk::any_u32();
        vk::assume(v <= 268_435_455);
        let mut dst = BytePages::default();
        write_variable_length(v, &mut dst);
        let out = dst.freeze();
        let mut exp = [0u8; 4];
        let n = spec_varint(v, &mut exp);
        assert!(out.len() == n);
        let mut i = 0;
        while i < n {
            assert!(out[i] == exp[i]);
            i += 1;
        }
        let r = decode_variable_length(&out);
        assert!(r == Ok(Some((v, n))));
        // decoding with trailing garbage consumes exactly n
        let mut padded = [0u8; 6];
        let mut i = 0;
        while i < n { padded[i] = out[i]; i += 1; }
        padded[4] = vk::any_u8();
        padded[5] = vk::any_u8();
        let r2 = decode_variable_length(&padded[..n + 2]);
        assert!(r2 == Ok(Some((v, n))));
        vcover!(n == 1, "one byte");
        vcover!(n == 2, "two bytes");
        vcover!(n == 3, "three bytes");
        vcover!(n == 4, "four bytes");
    }
}

vharness! {
    //@ twin_replay: yes
    //@ props: C01
    //@ tier: quick
    //@ expect: fail
    //@ desc: reachability twin of rt_varint_all (negated round-trip assertion must be violated)
    fn twin_rt_varint_all() unwind(6) {
        let v = vk::any_u32();
        vk::assume(v <= 268_435_455);
        let mut dst = BytePages::default();
        write_variable_length(v, &mut dst);
        let out = dst.freeze();
        let r = decode_variable_length(&out);
        assert!(r != Ok(Some((v, out.len()))));
    }
}
