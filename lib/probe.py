#!/usr/bin/env python3
"""probe.py <harness-name> [--unwind K] [pat=k ...] [--timeout S] [--stubs]
Developer tool (not used by any registered check): builds one harness, then runs CBMC directly
with statistics: symex time, program size, VCCs, per-loop unwinding counts. Used to derive the
`//@ unwindset:` annotations."""
import os
import re
import subprocess
import sys
import time

sys.path.insert(0, os.path.dirname(os.path.abspath(__file__)))
import check  # noqa
import weave  # noqa


def main():
    args = sys.argv[1:]
    name = args[0]
    unwind = None
    timeout = 300
    spec = {}
    stubs = False
    it = iter(args[1:])
    for a in it:
        if a == "--unwind":
            unwind = next(it)
        elif a == "--timeout":
            timeout = int(next(it))
        elif a == "--stubs":
            stubs = True
        elif "=" in a:
            k, v = a.split("=")
            spec[k] = v
    reg = check.load_registry()
    h = reg[name]
    if not spec:
        spec = h["unwindset"]
    weave.weave_kani()
    tdir = os.path.join(check.BUILD, "t", "probe_" + name)
    z = ["-Z", "unstable-options"] + (["-Z", "stubbing"] if (stubs or h["stubs"]) else [])
    cmd = ["cargo", "kani"] + z + ["--harness", h["fq"], "--exact", "--target-dir", tdir]
    p = subprocess.Popen(cmd, cwd=check.SLICE, env=check.ENV, stdout=subprocess.PIPE, stderr=subprocess.STDOUT,
                         text=True, preexec_fn=os.setsid)
    t0 = time.time()
    gu = None
    while p.poll() is None and time.time() - t0 < 600:
        out = subprocess.run(["pgrep", "-a", "-x", "cbmc"], capture_output=True, text=True).stdout
        hit = [l for l in out.splitlines() if tdir in l]
        if hit:
            m = re.search(r"--unwind (\d+)", hit[0])
            gu = m.group(1) if m else None
            os.killpg(p.pid, 9)
            break
        time.sleep(0.3)
    bo, _ = p.communicate()
    if "error" in (bo or ""):
        print("\n".join(l for l in bo.splitlines() if l.startswith("error") or "-->" in l)[:3000])
    import glob
    outs = [x for x in glob.glob(os.path.join(tdir, "**", "*.out"), recursive=True)
            if x.endswith(f"{len(name)}{name}.out")]
    outs.sort(key=os.path.getmtime)
    if not outs:
        print("no goto binary; build failed?")
        return 1
    f = outs[-1]
    uw, used = check.resolve_unwindset(f, spec)
    print("unwindset:", used)
    c = ["cbmc"] + check.KANI_CBMC_FLAGS + ["--unwind", str(unwind or gu or 10)]
    if uw:
        c += ["--unwindset", uw]
    c += ["--sat-solver", "cadical", "--slice-formula", f, "--verbosity", "9"]
    t0 = time.time()
    try:
        r = subprocess.run(c, capture_output=True, text=True, timeout=timeout)
        txt = r.stdout + r.stderr
    except subprocess.TimeoutExpired as e:
        txt = (e.stdout or b"").decode() if isinstance(e.stdout, bytes) else (e.stdout or "")
        print("TIMEOUT after", timeout)
    print("wall", round(time.time() - t0, 1))
    for l in txt.splitlines():
        if re.search(r"Runtime|size of program|VCC|variables,|slicing removed", l):
            print(l)
    cnt = {}
    for m in re.finditer(r"^Unwinding loop (\S+) iteration (\d+) .* function (.*) thread", txt, re.M):
        k = (m.group(1)[-12:], m.group(3)[:110])
        c0, mx = cnt.get(k, (0, 0))
        cnt[k] = (c0 + 1, max(mx, int(m.group(2))))
    for k, (c0, mx) in sorted(cnt.items(), key=lambda kv: -kv[1][0])[:30]:
        print(f"{c0:6d} max_iter={mx:3d} {k[1]}  [{k[0]}]")
    fails = re.findall(r"^\[(\S+)\] .*: FAILURE$", txt, re.M)
    print("failures:", fails[:20])
    cov = re.findall(r"^\[(\S*cover\S*)\] .*: (\w+)$", txt, re.M)
    print("covers:", cov)
    with open(os.path.join(check.BUILD, "probe_last.txt"), "w") as fo:
        fo.write(txt)


if __name__ == "__main__":
    sys.exit(main())
