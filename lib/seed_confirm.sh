#!/bin/bash
# seed_confirm.sh <Cid> <mN>: confirm a sub-agent's seeded change myself in its scratch worktree:
#  patch applies, existing suite stays green with it, demo fails with it and passes without it.
# Writes /verif/seeded/<Cid>-<mN>/{patch.diff,demo.rs,notes.md,meta.json}
id=$1; m=$2
src=${SEED_SRC:-/tmp/seed-$id/$m}; wt=${SEED_WT:-/tmp/wt-$id}; out=${SEED_OUT:-/verif/seeded/$id-$m}
export CARGO_TARGET_DIR=$wt/target CARGO_NET_OFFLINE=true
cd $wt || exit 2
git checkout -q -- . ; git clean -qfd -e target
git apply $src/patch.diff || { echo "patch does not apply"; exit 2; }
suite=$(cargo test --workspace --no-fail-fast --offline 2>&1)
suite_ok=$(echo "$suite" | grep -c "^test result: ok")
suite_bad=$(echo "$suite" | grep -c "^test result: FAILED\|^error")
suite_pass=$(echo "$suite" | grep "^test result: ok" | sed 's/.*ok\. \([0-9]*\) passed.*/\1/' | paste -sd+ | bc)
cp $src/demo.rs tests/seed_demo.rs
with=$(cargo test --offline --test seed_demo 2>&1); with_rc=$?
git apply -R $src/patch.diff
without=$(cargo test --offline --test seed_demo 2>&1); without_rc=$?
rm -f tests/seed_demo.rs; git checkout -q -- . ; git clean -qfd -e target
mkdir -p $out
cp $src/patch.diff $src/demo.rs $out/; cp $src/notes.md $out/ 2>/dev/null
python3 - <<PY
import json
json.dump({
 "property": "$id", "mutant": "$m",
 "confirmed_by_me": {
   "existing_suite_with_change": {"test_result_ok_lines": $suite_ok, "failed_or_error_lines": $suite_bad, "tests_passed": ${suite_pass:-0}},
   "demo_with_change_exit": $with_rc, "demo_without_change_exit": $without_rc,
   "ran": ["git apply patch.diff", "cargo test --workspace --no-fail-fast --offline", "cp demo.rs tests/seed_demo.rs; cargo test --offline --test seed_demo (with, then without the change)"],
   "where": "$wt (scratch worktree of /repo at $(git rev-parse --short HEAD))"
 },
 "valid": ($suite_bad == 0 and ${suite_pass:-0} >= 215 and $with_rc != 0 and $without_rc == 0)
}, open("$out/meta.json","w"), indent=1)
PY
echo "$id $m suite_pass=$suite_pass bad=$suite_bad demo_with_rc=$with_rc demo_without_rc=$without_rc"
