#!/usr/bin/env python3
"""weave: make the scratch copy of /repo/src that the Kani slice (and the native replay crate)
compile. Add-only: the copied files are byte-identical to /repo's working tree except for
`mod` lines APPENDED at the end of the files listed in MOUNTS (so that harness modules get
in-module access to private items) and, for the replay flavour, the crate-root additions
listed in `weave_replay`.

Nothing in /repo is touched.
"""
import hashlib
import os
import re
import shutil
import glob

VERIF = os.path.dirname(os.path.dirname(os.path.abspath(__file__)))
REPO = os.environ.get("VERIF_REPO", "/repo")
BUILD = os.environ.get("VERIF_BUILD") or os.path.join(VERIF, "build")
UNIT = os.path.join(BUILD, "unit")  # self-contained compilation unit: slice + models + woven sources
HARN_SRC = os.path.join(VERIF, "kani", "harness")
# harness sources are snapshotted into build/weave/harness by weave_kani(); everything that is
# compiled refers to the snapshot, so editing kani/harness while a check runs cannot disturb it
HARN = os.path.join(UNIT, "weave", "harness")

# source file (relative to src/)  ->  list of (module name, harness file)
MOUNTS = {
    "utils.rs": [("verif_utils", "h_utils.rs")],
    "topic.rs": [("verif_topic", "h_topic.rs")],
    "inflight.rs": [("verif_inflight", "h_inflight.rs")],
    "version.rs": [("verif_version", "h_version.rs")],
    "error.rs": [("verif_error", "h_error.rs")],
    "v3/codec/mod.rs": [("verif_v3", "h_v3.rs")],
    "v3/codec/codec.rs": [("verif_v3_frame", "h_v3_frame.rs")],
    "v5/codec/mod.rs": [("verif_v5", "h_v5.rs")],
    "v5/codec/codec.rs": [("verif_v5_frame", "h_v5_frame.rs")],
    "v5/codec/packet/mod.rs": [("verif_v5_packet", "h_v5_packet.rs")],
    "v5/shared.rs": [("verif_v5_shared", "h_v5_shared.rs")],
    "v3/shared.rs": [("verif_v3_shared", "h_v3_shared.rs")],
    "v3/handshake.rs": [("verif_v3_handshake", "h_v3_handshake.rs")],
    "v5/handshake.rs": [("verif_v5_handshake", "h_v5_handshake.rs")],
}
# mounted in the REPLAY flavour only (the Kani flavour compiles items extracted from these files)
MOUNTS_REPLAY_ONLY = {
    "io.rs": [("verif_io_state", "h_io_state.rs")],
    "v5/dispatcher.rs": [("verif_v5_pubgate", "h_v5_pubgate.rs")],
    "v5/client/dispatcher.rs": [("verif_v5_client_pubgate", "h_v5_client_pubgate.rs")],
}

# connection-state slice: the std `VecDeque` import of these files is renamed and the fixed-capacity
# model (kani/harness/support/mdeque.rs) is imported under the original name. This is the ONE
# place where weave is not add-only: an explicit `use std::collections::VecDeque` cannot be
# shadowed by an appended line (E0252). Kani flavour only; each anchor must match exactly once; the
# substitutions are recorded in the evidence.
SUBST = {
    "v5/shared.rs": [("collections::VecDeque,", "collections::VecDeque as StdVecDequeUnused,")],
    "v3/shared.rs": [("collections::VecDeque,", "collections::VecDeque as StdVecDequeUnused,")],
}
DEQUE_LINES = "\n#[cfg(kani)]\n#[allow(unused_imports)]\nuse crate::mdeque::VecDeque;\n"

# files in which the prelude `Vec` is shadowed by the fixed-capacity model (kani/harness/support/
# mvec.rs) UNDER KANI ONLY, by an appended `use` line (add-only).  See DESIGN.md section 2/3.
SHADOW_VEC = [
    "v3/codec/mod.rs", "v3/codec/codec.rs", "v3/codec/decode.rs", "v3/codec/encode.rs",
    "v3/codec/packet.rs",
    "v5/codec/mod.rs", "v5/codec/codec.rs", "v5/codec/decode.rs", "v5/codec/encode.rs",
    "v5/codec/packet/mod.rs", "v5/codec/packet/auth.rs", "v5/codec/packet/connack.rs",
    "v5/codec/packet/connect.rs", "v5/codec/packet/disconnect.rs",
    "v5/codec/packet/pubacks.rs", "v5/codec/packet/publish.rs",
    "v5/codec/packet/subscribe.rs",
    "v3/shared.rs", "v3/sink.rs", "v5/sink.rs",
]

# topic.rs: capacity-8 instance, plus the `vec!` macro (one non-test use, `vec![]`) by a
# module-local macro_rules of the same name (textual scope wins over the prelude macro)
SHADOW_VEC8 = ["topic.rs"]
VEC8_LINES = (
    "\n#[cfg(kani)]\n#[allow(unused_imports)]\nuse crate::mvec8::Vec;\n"
)

# files of the repository that the slice compiles (everything a verdict depends on)
SLICE_FILES = [
    "utils.rs", "types.rs", "error.rs", "topic.rs", "version.rs", "inflight.rs",
    "v3/codec/mod.rs", "v3/codec/codec.rs", "v3/codec/decode.rs", "v3/codec/encode.rs",
    "v3/codec/packet.rs",
    "v5/codec/mod.rs", "v5/codec/codec.rs", "v5/codec/decode.rs", "v5/codec/encode.rs",
    "v5/codec/packet/mod.rs", "v5/codec/packet/auth.rs", "v5/codec/packet/connack.rs",
    "v5/codec/packet/connect.rs", "v5/codec/packet/disconnect.rs",
    "v5/codec/packet/pubacks.rs", "v5/codec/packet/publish.rs",
    "v5/codec/packet/subscribe.rs",
    "payload.rs", "v5/shared.rs", "v3/shared.rs", "io.rs", "v5/dispatcher.rs",
    "v3/sink.rs", "v5/sink.rs", "v3/handshake.rs", "v5/handshake.rs", "v5/client/dispatcher.rs", "v3/dispatcher.rs",
]


def _die(msg):
    """a lost anchor / vanished file is an INCONCLUSIVE run (exit 2), never a verdict about the property"""
    print("INCONCLUSIVE " + msg, flush=True)
    raise SystemExit(2)


def sha(path):
    with open(path, "rb") as f:
        return hashlib.sha256(f.read()).hexdigest()


def _append_mounts(dst_src, cfg):
    appended = {}
    mounts = dict(MOUNTS)
    if cfg == "verif_replay":
        mounts.update(MOUNTS_REPLAY_ONLY)
    for rel, mods in mounts.items():
        p = os.path.join(dst_src, rel)
        if not os.path.exists(p):
            _die(f"weave: {rel} no longer exists in {REPO}/src - harness mount point lost")
        lines = []
        for mod, hfile in mods:
            hp = os.path.join(HARN, hfile)
            if not os.path.exists(os.path.join(HARN_SRC, hfile)):
                continue
            lines.append(f'\n#[cfg({cfg})]\n#[path = "{hp}"]\nmod {mod};\n')
        if lines:
            with open(p, "a") as f:
                f.write("".join(lines))
            appended[rel] = "".join(lines)
    return appended


def _write_if_changed(path, text):
    if os.path.exists(path):
        with open(path) as f:
            if f.read() == text:
                return
    os.makedirs(os.path.dirname(path), exist_ok=True)
    with open(path, "w") as f:
        f.write(text)


def _sync_tree(src, dst):
    """copy src -> dst, rewriting only files whose content differs (keeps mtimes stable so that
    cargo does not rebuild needlessly); removes files that vanished."""
    want = set()
    for root, _dirs, files in os.walk(src):
        for fn in files:
            if not fn.endswith(".rs"):
                continue
            sp = os.path.join(root, fn)
            rel = os.path.relpath(sp, src)
            want.add(rel)
    return want


def extract_item(text, start_re, what):
    """the source text of ONE item of a file: from the line matching start_re to the brace that closes
    the first `{` opened after it (the repository is rustfmt-formatted; braces inside string literals
    do not occur in the extracted items - the count is asserted to return to zero)"""
    m = re.search(start_re, text, re.M)
    if not m:
        _die(f"weave: item `{what}` not found in its source file - extraction anchor lost")
    i = text.index("{", m.end() - 1) if text[m.end() - 1] != "{" else m.end() - 1
    depth = 0
    k = i
    while k < len(text):
        c = text[k]
        if c == "{":
            depth += 1
        elif c == "}":
            depth -= 1
            if depth == 0:
                return text[m.start():k + 1]
        k += 1
    _die(f"weave: unbalanced braces while extracting `{what}`")


# io.rs cannot be compiled as a whole against models (ntex-io, ntex-rt, timers, pipelines): the
# response re-sequencing state and its step function are extracted VERBATIM, item by item
IO_STATE_ITEMS = [
    (r"^struct DispatcherState<P, U>", "struct DispatcherState"),
    (r"^enum ServiceResult<T>", "enum ServiceResult"),
    (r"^impl<T> ServiceResult<T>", "impl ServiceResult"),
    (r"^pub\(crate\) enum IoDispatcherError<S>", "enum IoDispatcherError"),
    (r"^impl<P, U> DispatcherState<P, U>", "impl DispatcherState (handle_result)"),
]
IO_STATE_HEADER = """// GENERATED by lib/weave.py on every run: items extracted verbatim from src/io.rs (see IO_STATE_ITEMS);
// only this header (imports; VecDeque = fixed-capacity model) is not repository text.
use std::{cell::Cell, cell::RefCell, future::Future, pin::Pin, rc::Rc};
use crate::mdeque::VecDeque;
use ntex_codec::{Decoder, Encoder};
use ntex_io::IoRef;
use ntex_service::{PipelineCall, Service};
use crate::error::{DecodeError, DispatcherError, EncodeError, ProtocolError};

/// stand-in for `ntex_util::task::LocalWaker`: the extracted items only store it. (A real `Waker` in
/// the state makes its drop glue reachable from every task that holds the state; CBMC resolves the
/// waker's vtable `drop` to every `fn(*const ())` in the program, drop glue of the tasks included.)
pub(crate) struct LocalWaker;
impl LocalWaker {
    pub(crate) fn new() -> Self {
        LocalWaker
    }
}

type Request<U> = <U as Decoder>::Item;
type Response<U> = <U as Encoder>::Item;
type Queue<T, E> = RefCell<VecDeque<ServiceResult<Result<T, E>>>>;

"""


IO_CALL_WRAPPER_HEAD = """
// ---- `DispatcherInner::{call_service, update_timer, handle_timeout}` ----------------------------
// The struct below is NOT repository text: it declares exactly the fields of the real
// `DispatcherInner` that the three functions touch (same names, model environment types). The
// functions inside the impl block (and the `Flags` bitflags above) ARE repository text, extracted verbatim.
use std::task::{Context, Poll};
use ntex_io::{Decoded, IoBoxed};
use ntex_util::time::Seconds;
use ntex_service::PipelineBinding;
use ntex_util::channel::condition::Condition;
use ntex_util::{future::Either, future::select, spawn};

pub(crate) struct DispatcherInner<P, C, U, E>
where
    P: Service<Request<U>>,
    U: Encoder + Decoder + 'static,
{
    io: IoBoxed,
    codec: U,
    service: PipelineBinding<P, Request<U>>,
    state: Rc<DispatcherState<P, U>>,
    stopping: Condition,
    flags: Flags,
    read_remains: u32,
    read_remains_prev: u32,
    read_max_timeout: Seconds,
    keepalive_timeout: Seconds,
    _marker: std::marker::PhantomData<(C, E)>,
}

impl<P, C, U, E> DispatcherInner<P, C, U, E>
where
    P: Service<Request<U>, Response = Option<Response<U>>, Error = DispatcherError<E>> + 'static,
    C: 'static,
    U: Decoder<Error = DecodeError> + Encoder<Error = EncodeError> + Clone + 'static,
    <U as Encoder>::Item: 'static,
    <U as Decoder>::Item: 'static,
    E: 'static,
{
"""


def gen_io_state(stage):
    with open(os.path.join(REPO, "src", "io.rs")) as f:
        txt = f.read()
    parts = [extract_item(txt, rx, what) for rx, what in IO_STATE_ITEMS]
    call_service = extract_item(txt, r"^    fn call_service\(&mut self, cx: &mut Context<'_>, item: Request<U>\)", "fn call_service")
    flags_item = extract_item(txt, r"^bitflags::bitflags! (?=\{\n    #\[derive\(Copy, Clone, Eq, PartialEq, Debug\)\]\n    struct Flags: u8)", "bitflags Flags")
    update_timer = extract_item(txt, r"^    fn update_timer\(&mut self, decoded: &Decoded<<U as Decoder>::Item>\)", "fn update_timer")
    handle_timeout = extract_item(txt, r"^    fn handle_timeout\(&mut self\) -> Result<\(\), ProtocolError>", "fn handle_timeout")
    # the three type aliases are asserted to be what the header says
    for alias in ("type Request<U> = <U as Decoder>::Item;", "type Response<U> = <U as Encoder>::Item;",
                  "type Queue<T, E> = RefCell<VecDeque<ServiceResult<Result<T, E>>>>;"):
        if alias not in txt:
            _die(f"weave: io.rs no longer declares `{alias}`")
    body = IO_STATE_HEADER + "\n\n".join(parts) + "\n"
    body += flags_item + "\n" + IO_CALL_WRAPPER_HEAD + call_service + "\n\n" + update_timer + "\n\n" + handle_timeout + "\n}\n"
    body += '\n#[cfg(kani)]\n#[path = "' + os.path.join(HARN, "h_io_state.rs") + '"]\nmod verif_io_state;\n'
    with open(os.path.join(stage, "gen_io_state.rs"), "w") as f:
        f.write(body)
    d = {what: hashlib.sha256(p.encode()).hexdigest() for (rx, what), p in zip(IO_STATE_ITEMS, parts)}
    d["fn call_service"] = hashlib.sha256(call_service.encode()).hexdigest()
    d["bitflags Flags"] = hashlib.sha256(flags_item.encode()).hexdigest()
    d["fn update_timer"] = hashlib.sha256(update_timer.encode()).hexdigest()
    d["fn handle_timeout"] = hashlib.sha256(handle_timeout.encode()).hexdigest()
    return d


PUBGATE_HEAD = """// GENERATED by lib/weave.py on every run from src/v5/dispatcher.rs: `struct PublishInfo` and the
// synchronous admission block of `Service<Decoded>::call`, arm `Decoded::Publish` (receive maximum, maximum QoS,
// retain availability, packet-id reservation, topic-alias resolution, after-disconnect rule) are repository
// text, extracted verbatim; the block is wrapped into a function (`publish_gate`) of a struct that
// declares exactly the fields the block touches. One recorded substitution: the explicit path
// `std::collections::hash_map::Entry` -> `ntex_util::hash_map::Entry` (the map is the fixed-capacity model).
use std::{cell::RefCell, num, rc::Rc};
use ntex_bytes::ByteString;
use ntex_util::{HashMap, HashSet};
use crate::error::{DispatcherError, ProtocolError, SpecViolation};
use crate::types::QoS;
use super::codec::{self, DisconnectReasonCode, Encoded};
use super::shared::MqttShared;

"""
PUBGATE_MID = """
pub(crate) struct Inner {
    sink: Rc<MqttShared>,
    info: RefCell<PublishInfo>,
}
pub(crate) struct GateCfg {
    handle_qos_after_disconnect: Option<QoS>,
}
pub(crate) struct Dispatcher {
    inner: Rc<Inner>,
    cfg: GateCfg,
}
impl Dispatcher {
    fn tag(&self) -> &'static str {
        "MODEL"
    }
    /// Ok(Some(..)) = the PUBLISH passed admission and goes to the publish handler
    pub(crate) fn publish_gate<E>(
        &self,
        publish: &mut codec::Publish,
        packet_id: Option<num::NonZeroU16>,
    ) -> Result<Option<Encoded>, DispatcherError<E>> {
        let info = self.inner.as_ref();
"""
PUBGATE_TAIL = """
        Ok(Some(Encoded::PayloadChunk(ntex_bytes::Bytes::new())))
    }
}
"""


PUBGATE_MID_CLIENT = """
pub(crate) struct Inner {
    sink: Rc<MqttShared>,
    info: RefCell<PublishInfo>,
}
pub(crate) struct Dispatcher {
    inner: Rc<Inner>,
    max_receive: usize,
    max_topic_alias: u16,
}
impl Dispatcher {
    /// Ok(Some(..)) = the PUBLISH passed admission and goes to the publish handler
    pub(crate) fn publish_gate<E>(
        &self,
        publish: &mut codec::Publish,
        packet_id: Option<NonZeroU16>,
    ) -> Result<Option<Encoded>, DispatcherError<E>> {
        let info = self.inner.as_ref();
"""


def gen_v5_client_pubgate(stage):
    with open(os.path.join(REPO, "src", "v5", "client", "dispatcher.rs")) as f:
        txt = f.read()
    info = extract_item(txt, r"^struct PublishInfo ", "struct PublishInfo (v5 client dispatcher)")
    block = extract_item(txt, r"^                (?=\{\n                    let mut inner = info\.info\.borrow_mut\(\);)", "v5 client publish admission block")
    sub = "std::collections::hash_map::Entry"
    block2 = block.replace(sub, "ntex_util::hash_map::Entry")
    head = PUBGATE_HEAD.replace("src/v5/dispatcher.rs", "src/v5/client/dispatcher.rs").replace(
        "use std::{cell::RefCell, num, rc::Rc};", "use std::{cell::RefCell, num::NonZeroU16, rc::Rc};").replace(
        "use super::codec::{self, DisconnectReasonCode, Encoded};", "use super::codec::{self, DisconnectReasonCode, Encoded, Packet};")
    body = head + info + "\n" + PUBGATE_MID_CLIENT + "        " + block2.lstrip() + "\n" + PUBGATE_TAIL
    body += '\n#[cfg(kani)]\n#[path = "' + os.path.join(HARN, "h_v5_client_pubgate.rs") + '"]\nmod verif_v5_client_pubgate;\n'
    with open(os.path.join(stage, "gen_v5_client_pubgate.rs"), "w") as f:
        f.write(body)
    return {"struct PublishInfo": hashlib.sha256(info.encode()).hexdigest(),
            "publish admission block": hashlib.sha256(block.encode()).hexdigest()}


def gen_sized(stage):
    """`impl crate::inflight::SizedRequest for Decoded` of both server dispatchers, verbatim"""
    out = "// GENERATED by lib/weave.py: the two `impl SizedRequest for Decoded` blocks, extracted verbatim from\n// src/v3/dispatcher.rs and src/v5/dispatcher.rs (how the limiter classifies inbound items)\n"
    d = {}
    for ver in ("v3", "v5"):
        with open(os.path.join(REPO, "src", ver, "dispatcher.rs")) as f:
            txt = f.read()
        item = extract_item(txt, r"^impl crate::inflight::SizedRequest for Decoded ", f"impl SizedRequest for Decoded ({ver})")
        out += f"pub(crate) mod sized_{ver} {{\n    use crate::{ver}::codec::Decoded;\n" + "\n".join("    " + l if l.strip() else l for l in item.split("\n")) + "\n}\n"
        d[f"{ver}/dispatcher.rs impl SizedRequest"] = hashlib.sha256(item.encode()).hexdigest()
    with open(os.path.join(stage, "gen_sized.rs"), "w") as f:
        f.write(out)
    return d


def gen_v5_pubgate(stage):
    with open(os.path.join(REPO, "src", "v5", "dispatcher.rs")) as f:
        txt = f.read()
    info = extract_item(txt, r"^struct PublishInfo ", "struct PublishInfo (v5 dispatcher)")
    # the admission block: the first `{` block that starts with `let mut inner = info.info.borrow_mut();`
    block = extract_item(txt, r"^                (?=\{\n                    let mut inner = info\.info\.borrow_mut\(\);)", "v5 publish admission block")
    sub = "std::collections::hash_map::Entry"
    block2 = block.replace(sub, "ntex_util::hash_map::Entry")
    body = PUBGATE_HEAD + info + "\n" + PUBGATE_MID + "        " + block2.lstrip() + "\n" + PUBGATE_TAIL
    body += '\n#[cfg(kani)]\n#[path = "' + os.path.join(HARN, "h_v5_pubgate.rs") + '"]\nmod verif_v5_pubgate;\n'
    with open(os.path.join(stage, "gen_v5_pubgate.rs"), "w") as f:
        f.write(body)
    return {"struct PublishInfo": hashlib.sha256(info.encode()).hexdigest(),
            "publish admission block": hashlib.sha256(block.encode()).hexdigest()}


def weave_kani():
    """scratch copy for the Kani slice -> /verif/build/weave/src. Returns metadata dict."""
    out = os.path.join(UNIT, "weave")
    stage = os.path.join(BUILD, "weave.stage")
    shutil.rmtree(stage, ignore_errors=True)
    os.makedirs(stage)
    shutil.copytree(os.path.join(REPO, "src"), os.path.join(stage, "src"))
    shutil.copytree(HARN_SRC, os.path.join(stage, "harness"))
    appended = _append_mounts(os.path.join(stage, "src"), "kani")
    for rel in SHADOW_VEC:
        p = os.path.join(stage, "src", rel)
        if not os.path.exists(p):
            _die(f"weave: {rel} no longer exists")
        line = "\n#[cfg(kani)]\n#[allow(unused_imports)]\nuse crate::mvec::Vec;\n"
        with open(p, "a") as f:
            f.write(line)
        appended[rel] = appended.get(rel, "") + line
    for rel in SHADOW_VEC8:
        p = os.path.join(stage, "src", rel)
        with open(p, "a") as f:
            f.write(VEC8_LINES)
        appended[rel] = appended.get(rel, "") + VEC8_LINES
    substituted = {}
    for rel, subs in SUBST.items():
        p = os.path.join(stage, "src", rel)
        if not os.path.exists(p):
            _die(f"weave: {rel} no longer exists")
        with open(p) as f:
            txt = f.read()
        for old, new in subs:
            if txt.count(old) != 1:
                _die(f"weave: substitution anchor `{old}` matches {txt.count(old)} times in {rel}")
            txt = txt.replace(old, new)
        txt += DEQUE_LINES
        with open(p, "w") as f:
            f.write(txt)
        substituted[rel] = [list(x) for x in subs]
        appended[rel] = appended.get(rel, "") + DEQUE_LINES
    # the one crate-level constant the v5 codec refers to outside the slice
    with open(os.path.join(REPO, "src", "v5", "mod.rs")) as f:
        m = re.search(r"^const RECEIVE_MAX_DEFAULT:[^;]*;", f.read(), re.M)
    if not m:
        _die("weave: RECEIVE_MAX_DEFAULT not found in src/v5/mod.rs")
    gen = "// extracted verbatim from src/v5/mod.rs by weave.py\nuse std::num::NonZeroU16;\npub(crate) " + m.group(0) + "\n"
    with open(os.path.join(stage, "gen_v5_consts.rs"), "w") as f:
        f.write(gen)
    extracted = gen_io_state(stage)
    extracted_gate = gen_v5_pubgate(stage)
    extracted_cgate = gen_v5_client_pubgate(stage)
    extracted_sized = gen_sized(stage)
    # the real LocalWaker source (std-only file) from the registry version pinned by Cargo.lock
    ver = None
    with open(os.path.join(REPO, "Cargo.lock")) as f:
        lock = f.read()
    mm = re.search(r'name = "ntex-util"\nversion = "([^"]+)"', lock)
    if mm:
        ver = mm.group(1)
    cands = glob.glob(os.path.expanduser(f"~/.cargo/registry/src/*/ntex-util-{ver}/src/task.rs"))
    if not cands:
        _die("weave: ntex-util task.rs not found in cargo registry")
    shutil.copy(cands[0], os.path.join(stage, "ntex_util_task.rs"))
    # now move into place, touching only changed files
    os.makedirs(out, exist_ok=True)
    want = set()
    for root, _d, files in os.walk(stage):
        for fn in files:
            sp = os.path.join(root, fn)
            rel = os.path.relpath(sp, stage)
            want.add(rel)
            with open(sp) as f:
                _write_if_changed(os.path.join(out, rel), f.read())
    for root, _d, files in os.walk(out):
        for fn in files:
            rel = os.path.relpath(os.path.join(root, fn), out)
            if rel not in want:
                os.remove(os.path.join(root, fn))
    shutil.rmtree(stage, ignore_errors=True)
    # the slice crate and the model crates are copied next to the woven sources, so that one BUILD
    # root is a self-contained compilation unit (several roots can be used in parallel)
    for sub in ("slice", "models"):
        srcd = os.path.join(VERIF, "kani", sub)
        for root, dirs, files in os.walk(srcd):
            dirs[:] = [d for d in dirs if d != "target"]
            for fn in files:
                if fn == "Cargo.lock":
                    continue
                sp = os.path.join(root, fn)
                rel = os.path.relpath(sp, os.path.join(VERIF, "kani"))
                with open(sp) as f:
                    _write_if_changed(os.path.join(UNIT, rel), f.read())
    # slice lock file: start from the repository's, cargo prunes it
    lockdst = os.path.join(UNIT, "slice", "Cargo.lock")
    if not os.path.exists(lockdst):
        shutil.copy(os.path.join(REPO, "Cargo.lock"), lockdst)
    meta = {
        "repo": REPO,
        "sources_sha256": {rel: sha(os.path.join(REPO, "src", rel)) for rel in SLICE_FILES
                           if os.path.exists(os.path.join(REPO, "src", rel))},
        "appended_lines": appended,
        "substitutions": substituted,
        "extracted_items_sha256": {"io.rs": extracted, "v5/dispatcher.rs": extracted_gate, "v5/client/dispatcher.rs": extracted_cgate, "SizedRequest": extracted_sized},
    }
    return meta


def weave_replay():
    """scratch copy of the WHOLE real crate (real dependencies) with the harness modules mounted
    under cfg(verif_replay) -> /verif/build/replay. Used only to replay solver counterexamples."""
    out = os.path.join(BUILD, "replay")
    os.makedirs(out, exist_ok=True)
    stage = os.path.join(BUILD, "replay.stage")
    shutil.rmtree(stage, ignore_errors=True)
    os.makedirs(stage)
    shutil.copytree(os.path.join(REPO, "src"), os.path.join(stage, "src"))
    for fn in ("Cargo.toml", "Cargo.lock"):
        shutil.copy(os.path.join(REPO, fn), os.path.join(stage, fn))
    _append_mounts(os.path.join(stage, "src"), "verif_replay")
    librs = os.path.join(stage, "src", "lib.rs")
    with open(librs) as f:
        txt = f.read()
    vk = os.path.join(HARN, "support", "vk_replay.rs")
    # lint levels do not change behaviour; harness code is not written to clippy::pedantic
    txt = txt.replace("#![deny(", "#![allow(unexpected_cfgs, dead_code, unused_imports, unused_macros, unused_variables)]\n#![allow(", 1)
    vh = os.path.join(HARN, "support", "vh.rs")
    vio = os.path.join(HARN, "support", "vio_replay.rs")
    inject = (f'#[cfg(verif_replay)]\n#[macro_use]\n#[path = "{vk}"]\npub(crate) mod vk;\n'
              f'#[cfg(verif_replay)]\n#[path = "{vh}"]\npub(crate) mod vh;\n'
              f'#[cfg(all(verif_replay, test))]\n#[path = "{vio}"]\npub(crate) mod vio;\n')
    if "mod topic;" not in txt:
        _die("weave_replay: anchor `mod topic;` not found in lib.rs")
    txt = txt.replace("mod topic;", inject + "mod topic;", 1)
    with open(librs, "w") as f:
        f.write(txt)
    # examples/tests/benches are not needed for the replay build
    with open(os.path.join(stage, "Cargo.toml")) as f:
        ct = f.read()
    if "[workspace]" not in ct:
        ct += "\n[workspace]\n"
    ct += "\n[lints.rust]\nunexpected_cfgs = { level = \"allow\" }\n"
    with open(os.path.join(stage, "Cargo.toml"), "w") as f:
        f.write(ct)
    want = set()
    for root, _d, files in os.walk(stage):
        for fn in files:
            sp = os.path.join(root, fn)
            rel = os.path.relpath(sp, stage)
            want.add(rel)
            with open(sp) as f:
                _write_if_changed(os.path.join(out, rel), f.read())
    for root, _d, files in os.walk(out):
        if os.path.relpath(root, out).split(os.sep)[0] == "target":
            continue
        for fn in files:
            rel = os.path.relpath(os.path.join(root, fn), out)
            if rel not in want:
                os.remove(os.path.join(root, fn))
    shutil.rmtree(stage, ignore_errors=True)
    return out


if __name__ == "__main__":
    import json
    import sys
    if len(sys.argv) > 1 and sys.argv[1] == "replay":
        print(weave_replay())
    else:
        print(json.dumps(weave_kani(), indent=1)[:2000])
