#!/bin/bash
# run1.sh <fq-harness> <timeout-s> <mem-kb> [extra cargo-kani args]  -> /verif/build/logs/<short>.log
h=$1; t=$2; m=$3; shift 3
short=${h##*::}
mkdir -p /verif/build/logs
export CARGO_NET_OFFLINE=true
cd /verif/kani/slice
ulimit -v $m
/usr/bin/time -f "WALL=%e RSS_KB=%M" timeout $t cargo kani --harness $h --exact --output-format terse --target-dir /verif/build/t/$short "$@" > /verif/build/logs/$short.log 2>&1
echo "EXIT=$?" >> /verif/build/logs/$short.log
