#!/usr/bin/env python3
"""seed_eval.py <seeded-dir-name> [--props C01,C02] [--tier quick] [--jobs N]
Run my checks against one seeded change WITHOUT touching /repo: the change is applied to a fresh
scratch worktree of /repo (removed afterwards) and the check is pointed at it (VERIF_REPO) with its
own build root (VERIF_BUILD) and evidence directory, so that several evaluations and a baseline
run can proceed in parallel. Equivalent to `git -C /repo apply; ./check; git -C /repo checkout`.
Records the outcome in seeded/<name>/meta.json under "my_checks"."""
import json
import os
import re
import shutil
import subprocess
import sys
import time

VERIF = os.path.dirname(os.path.dirname(os.path.abspath(__file__)))


def main():
    name = sys.argv[1]
    args = sys.argv[2:]
    props = None
    tier = "quick"
    jobs = "5"
    only = None
    it = iter(args)
    for a in it:
        if a == "--props":
            props = next(it).split(",")
        elif a == "--tier":
            tier = next(it)
        elif a == "--jobs":
            jobs = next(it)
        elif a == "--only":
            only = next(it)
    sd = os.path.join(VERIF, "seeded", name)
    meta = json.load(open(os.path.join(sd, "meta.json")))
    head = subprocess.run(["git", "-C", "/repo", "rev-parse", "--short", "HEAD"], capture_output=True, text=True).stdout.strip()
    if meta.get("evaluated_at_repo") == head and meta.get("my_checks") and not os.environ.get("SEED_FORCE"):
        print(name, "already evaluated at", head, "- skipped", flush=True)
        return
    lockf = os.path.join(VERIF, "build", f"seedlock_{name}")
    os.makedirs(os.path.join(VERIF, "build"), exist_ok=True)
    try:
        fd = os.open(lockf, os.O_CREAT | os.O_EXCL | os.O_WRONLY)
        os.close(fd)
    except FileExistsError:
        print(name, "is being evaluated by another stream - skipped", flush=True)
        return
    if props is None:
        props = [meta["property"]]
    wt = f"/tmp/mut-{name}"
    subprocess.run(["git", "-C", "/repo", "worktree", "remove", "--force", wt], capture_output=True)
    shutil.rmtree(wt, ignore_errors=True)
    subprocess.run(["git", "-C", "/repo", "worktree", "add", "-q", wt, "HEAD"], check=True)
    subprocess.run(["git", "-C", wt, "apply", os.path.join(sd, "patch.diff")], check=True)
    shutil.copy("/repo/Cargo.lock", os.path.join(wt, "Cargo.lock"))  # untracked in the repository
    meta.pop("my_checks", None)
    broot = os.path.join(VERIF, "build", "mut", name)
    shutil.rmtree(broot, ignore_errors=True)
    os.makedirs(broot)
    res = {}
    try:
        for p in props:
            env = dict(os.environ, VERIF_REPO=wt, VERIF_BUILD=broot, VERIF_EVIDENCE=os.path.join(broot, "evidence"),
                       VERIF_MEM_GB=os.environ.get("VERIF_MEM_GB", "20"), VERIF_FIRST_VIOLATION="1", VERIF_TWIN_REPLAY_MAX_S="0")
            cmd = [os.path.join(VERIF, "check"), p, "--tier", tier, "--jobs", jobs]
            if only:
                cmd += ["--only", only]
            t0 = time.time()
            r = subprocess.run(cmd, cwd=VERIF, env=env, capture_output=True, text=True)
            out = r.stdout + r.stderr
            with open(os.path.join(VERIF, "build", f"mut_{name}_{p}.txt"), "w") as f:
                f.write(out)
            viol = re.findall(r"^VIOLATION property=(\S+) replay=(\S+)", out, re.M)
            fails = re.findall(r"^\s+(\S+)\s+FAILED\s+expect=pass", out, re.M)
            checks = re.findall(r"failed check: (.*)", out)
            incon = re.findall(r"^INCONCLUSIVE harness=(\S+): (.*)", out, re.M)
            res[p] = {"exit": r.returncode, "violations": [v[0] for v in viol], "failing_harnesses": fails,
                      "failed_checks": checks[:6], "inconclusive": [f"{a}: {b[:120]}" for a, b in incon][:8],
                      "tier": tier, "wall_s": round(time.time() - t0)}
            # keep the replay files next to the seeded change
            for _pid, rp in viol:
                if os.path.exists(rp):
                    shutil.copy(rp, os.path.join(sd, os.path.basename(rp)))
            print(name, p, "exit", r.returncode, "violations", len(viol), "failing", fails, flush=True)
    finally:
        subprocess.run(["git", "-C", "/repo", "worktree", "remove", "--force", wt], capture_output=True)
        shutil.rmtree(wt, ignore_errors=True)
        shutil.rmtree(broot, ignore_errors=True)
    meta = json.load(open(os.path.join(sd, "meta.json")))
    meta.pop("my_checks", None)
    meta.setdefault("my_checks", {}).update(res)
    meta["evaluated_at_repo"] = head
    try:
        os.remove(lockf)
    except OSError:
        pass
    meta["detected"] = any(v["exit"] == 1 and v["violations"] for v in meta["my_checks"].values())
    json.dump(meta, open(os.path.join(sd, "meta.json"), "w"), indent=1)


if __name__ == "__main__":
    main()
