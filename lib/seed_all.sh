#!/bin/bash
# seed_all.sh [names...]: evaluate seeded changes with lib/seed_eval.py, two at a time (each stream gets
# half of the memory budget and 7 jobs). Without arguments: every seeded/<name> not yet evaluated
# against the current /repo HEAD.
cd "$(dirname "$0")/.."
head=$(git -C /repo rev-parse --short HEAD)
if [ $# -gt 0 ]; then names="$@"; else
  names=$(for d in seeded/*/; do n=$(basename $d); python3 - "$d/meta.json" "$head" <<'PY' && echo $n
import json,sys
m=json.load(open(sys.argv[1]))
sys.exit(0 if m.get("evaluated_at_repo")!=sys.argv[2] else 1)
PY
  done); fi
run_stream() {
  for n in "$@"; do
    VERIF_MEM_GB=${VERIF_MEM_GB:-40} python3 lib/seed_eval.py $n --jobs ${SEED_JOBS:-8} >> build/seed_all.log 2>&1
  done
}
a=(); b=(); i=0
for n in $names; do if [ $((i%2)) -eq 0 ]; then a+=($n); else b+=($n); fi; i=$((i+1)); done
mkdir -p build
run_stream "${a[@]}" &
run_stream "${b[@]}" &
wait
python3 lib/seed_table.py
