#!/usr/bin/env python3
"""check.py <property-id> --tier quick|thorough

Decides one property by Kani/CBMC over the woven source slice (see DESIGN.md).
Exit 0: held on everything explored (or only listed known findings)
Exit 1: + line `VIOLATION property=<id> replay=<path>` for a replay-confirmed unlisted failure
Exit 2: inconclusive (timeout / out of memory / tool crash / harness no longer compiles /
        vacuous harness / counterexample that does not reproduce on the real crate)
"""
import argparse
import concurrent.futures as cf
import glob
import json
import os
import re
import resource
import shutil
import subprocess
import sys
import threading
import time

VERIF = os.path.dirname(os.path.dirname(os.path.abspath(__file__)))
sys.path.insert(0, os.path.join(VERIF, "lib"))
import weave  # noqa: E402

BUILD = weave.BUILD
SLICE = os.path.join(weave.UNIT, "slice")
HARN = os.path.join(VERIF, "kani", "harness")  # registry is read from the sources; builds use the snapshot
EVID = os.environ.get("VERIF_EVIDENCE") or os.path.join(VERIF, "evidence")
KNOWN = os.path.join(VERIF, "known_findings.txt")
ENV = dict(os.environ, CARGO_NET_OFFLINE="true", CARGO_TERM_COLOR="never")
ENV.pop("RUSTFLAGS", None)

KANI_CBMC_FLAGS = ["--no-malloc-may-fail", "--no-undefined-shift-check", "--no-signed-overflow-check",
                   "--nan-check", "--no-self-loops-to-assumptions", "--no-pointer-primitive-check",
                   "--object-bits", "16"]

TOTAL_MEM_GB = int(os.environ.get("VERIF_MEM_GB", "52"))
print_lock = threading.Lock()


def say(*a):
    with print_lock:
        print(*a, flush=True)


# ---------------------------------------------------------------------------------------------
# registry: harness annotations live next to the harness source
#   //@ props: C01 C09        properties the harness decides (first = owner)
#   //@ tier: quick|thorough  (thorough tier runs quick harnesses too)
#   //@ expect: pass|fail     fail = reachability twin: MUST come back FAILED
#   //@ unwindset: <fn-suffix>=<k> ...   per-loop bounds (all loops of that function)
#   //@ mem: <GB>  timeout: <s>
#   //@ stubs: yes            needs -Z stubbing
#   //@ bounds: free text     //@ functions: free text   //@ assumes: free text
# followed by `fn NAME() unwind(K)` or a macro instance `mac!(NAME, ...)`.
def load_registry():
    reg = {}
    mounts = {}
    for rel, mods in weave.MOUNTS.items():
        modpath = rel[:-3].replace("/mod", "").replace("/", "::")
        for mod, hfile in mods:
            mounts[hfile] = modpath + "::" + mod
    # harness files mounted inside generated modules of extracted items (module path in the slice crate
    # differs from the path in the real crate: harness names are unique, replay selects by name)
    mounts["h_io_state.rs"] = "io_state::verif_io_state"
    mounts["h_v5_pubgate.rs"] = "v5::pubgate::verif_v5_pubgate"
    mounts["h_v5_client_pubgate.rs"] = "v5::client_pubgate::verif_v5_client_pubgate"
    replay_paths = {"h_io_state.rs": "io::verif_io_state", "h_v5_pubgate.rs": "v5::dispatcher::verif_v5_pubgate",
                    "h_v5_client_pubgate.rs": "v5::client::dispatcher::verif_v5_client_pubgate"}
    for hfile, modpath in mounts.items():
        p = os.path.join(HARN, hfile)
        if not os.path.exists(p):
            continue
        ann = {}
        macro_ann = {}   # macro name -> annotations written inside its macro_rules! definition
        cur_macro = None
        with open(p) as f:
            for line in f:
                s = line.strip()
                mm = re.match(r"^macro_rules!\s+(\w+)", s)
                if mm:
                    cur_macro = mm.group(1)
                if cur_macro and re.search(r"\bfn \$\w+\(\) unwind\(", s):
                    # annotations of a harness template: every instance `<macro>!(name, ..)` inherits them
                    if ann:
                        macro_ann[cur_macro] = ann
                        ann = {}
                    continue
                mi = re.match(r"^(\w+)!\((\w+)\s*,", s)
                if mi and mi.group(1) in macro_ann:
                    # annotations written directly in front of an instance override the template's
                    base = dict(macro_ann[mi.group(1)])
                    base.update(ann)
                    ann = base
                if s.startswith("//@"):
                    body = s[3:].strip()
                    # several "key: value" pairs may share a line when separated by two spaces
                    for part in re.split(r"\s{2,}(?=\w+:)", body):
                        if ":" in part:
                            k, v = part.split(":", 1)
                            ann[k.strip()] = (ann.get(k.strip(), "") + " " + v.strip()).strip()
                    continue
                m = re.search(r"\bfn (\w+)\(\) unwind\((\w+)\)", s) or re.match(r"^\w+!\((\w+)\s*,", s)
                if m and ann:
                    name = m.group(1)
                    h = {
                        "name": name,
                        "fq": modpath + "::" + name,
                        "fq_replay": replay_paths.get(hfile, modpath) + "::" + name,
                        "file": hfile,
                        "props": ann.get("props", "").split(),
                        "tier": ann.get("tier", "quick"),
                        "expect": ann.get("expect", "pass"),
                        "unwindset": dict(x.split("=") for x in ann.get("unwindset", "").split()),
                        "mem": float(ann.get("mem", "6")),
                        "timeout": int(ann.get("timeout", "600")),
                        "stubs": ann.get("stubs", "no") == "yes",
                        "bounds": ann.get("bounds", ""),
                        "functions": ann.get("functions", ""),
                        "assumes": ann.get("assumes", ""),
                        "desc": ann.get("desc", ""),
                        "finding": ann.get("finding", ""),
                        "env": dict(x.split("=", 1) for x in ann.get("env", "").split()),
                        "twin_replay": ann.get("twin_replay", "no"),
                    }
                    if name in reg:
                        raise SystemExit(f"duplicate harness name {name}")
                    reg[name] = h
                    ann = {}
                elif s and not s.startswith("//"):
                    if m is None and ann and not s.startswith(("vharness!", "#[", "#![")):
                        # annotations must be directly followed by the harness line
                        pass
    return reg


# ---------------------------------------------------------------------------------------------
def run(cmd, cwd=None, timeout=None, mem_gb=None, env=None):
    def lim():
        if mem_gb:
            b = int(mem_gb * 1024 ** 3)
            resource.setrlimit(resource.RLIMIT_AS, (b, b))
        os.setsid()
    t0 = time.time()
    p = subprocess.Popen(cmd, cwd=cwd, env=env or ENV, stdout=subprocess.PIPE, stderr=subprocess.STDOUT,
                         text=True, preexec_fn=lim)
    try:
        out, _ = p.communicate(timeout=timeout)
        to = False
    except subprocess.TimeoutExpired:
        try:
            os.killpg(p.pid, 9)
        except ProcessLookupError:
            pass
        out, _ = p.communicate()
        to = True
    return p.returncode, out, time.time() - t0, to


def base_target():
    return os.path.join(BUILD, "kani-base")


def warm_base(log):
    """compile the dependencies once; per-harness target dirs are copies of this one"""
    bt = base_target()
    stamp = os.path.join(bt, ".warm")
    if os.path.exists(stamp):
        return
    os.makedirs(bt, exist_ok=True)
    rc, out, dt, _ = run(["cargo", "kani", "--only-codegen", "--harness", "utils::verif_utils::rt_varint_all",
                          "--exact", "--target-dir", bt], cwd=SLICE, timeout=900)
    log.write(out)
    if rc != 0:
        return
    for p in glob.glob(os.path.join(bt, "**", "build", "slice"), recursive=True):
        shutil.rmtree(p, ignore_errors=True)
    with open(stamp, "w") as f:
        f.write("ok\n")


class MemGate:
    def __init__(self, total):
        self.total = total
        self.used = 0.0
        self.cv = threading.Condition()

    def acquire(self, n):
        n = min(n, self.total)
        with self.cv:
            while self.used + n > self.total:
                self.cv.wait()
            self.used += n
        return n

    def release(self, n):
        with self.cv:
            self.used -= n
            self.cv.notify_all()


GATE = MemGate(TOTAL_MEM_GB)


def parse_kani(out):
    """parse regular-format Kani output -> dict"""
    r = {"status": None, "checks_total": 0, "checks_failed": 0, "failed": [], "covers": {},
         "undetermined": 0, "unreachable": 0, "verif_time": None}
    if "VERIFICATION:- SUCCESSFUL" in out:
        r["status"] = "SUCCESS"
    elif "VERIFICATION:- FAILED" in out:
        r["status"] = "FAILED"
    m = re.search(r"Verification Time: ([0-9.]+)s", out)
    if m:
        r["verif_time"] = float(m.group(1))
    m = re.search(r"size of program expression: (\d+) steps", out)
    r["ssa_steps"] = int(m.group(1)) if m else 0
    m = re.search(r"Generated (\d+) VCC\(s\), (\d+) remaining after simplification", out)
    r["vccs"] = int(m.group(1)) if m else 0
    r["vccs_remaining"] = int(m.group(2)) if m else 0
    m = re.search(r"(\d+) variables, (\d+) clauses", out)
    r["sat_vars"] = int(m.group(1)) if m else 0
    r["sat_clauses"] = int(m.group(2)) if m else 0
    # Check N: name \n - Status: X \n - Description: "..." \n - Location: file:line:col in function f
    for m in re.finditer(r"Check \d+: ([^\n]+)\n\s+- Status: (\w+)\n\s+- Description: \"([^\n]*)\"\n(?:\s+- Location: ([^\n]*)\n)?", out):
        name, st, desc, loc = m.group(1), m.group(2), m.group(3), m.group(4) or ""
        if ".cover." in name:
            r["covers"][desc] = st
            continue
        r["checks_total"] += 1
        if st == "FAILURE":
            r["checks_failed"] += 1
            r["failed"].append({"check": name, "desc": desc, "loc": loc})
        elif st == "UNDETERMINED":
            r["undetermined"] += 1
        elif st == "UNREACHABLE":
            r["unreachable"] += 1
    if "CBMC failed" in out or "Status: ERROR" in out or "out of memory" in out.lower() or "Out of memory" in out:
        r["oom"] = True
    if "internal compiler error" in out or "Kani unexpectedly panicked" in out:
        r["ice"] = True
    return r


def resolve_unwindset(outfile, spec):
    """map {function-suffix: k} to CBMC loop labels using `cbmc --show-loops`"""
    if not spec:
        return "", {}
    rc, out, _, _ = run(["cbmc", "--show-loops", outfile], timeout=120)
    loops = re.findall(r"^Loop (\S+):\n\s+file .*? function (.*)$", out, re.M)
    sel = []
    used = {}
    for pat, k in spec.items():
        idx = None
        fpat = pat
        if "#" in pat:
            fpat, idx = pat.split("#")
        hit = False
        for label, fn in loops:
            if fpat in fn:
                if idx is not None and not label.endswith("." + idx):
                    continue
                sel.append(f"{label}:{k}")
                used[label] = int(k)
                hit = True
        if not hit:
            used["UNMATCHED:" + pat] = int(k)
    return ",".join(sel), used


def run_harness(h, tier, playback=False, keep=False):
    """-> result dict"""
    name = h["name"]
    tdir = os.path.join(BUILD, "t", name)
    logp = os.path.join(BUILD, "logs", name + ".log")
    os.makedirs(os.path.dirname(logp), exist_ok=True)
    os.makedirs(os.path.join(BUILD, "t"), exist_ok=True)
    shutil.rmtree(tdir, ignore_errors=True)
    bt = base_target()
    if os.path.exists(os.path.join(bt, ".warm")):
        subprocess.run(["cp", "-a", bt, tdir], check=False)
    res = {"name": name, "fq": h["fq"], "expect": h["expect"]}
    mem = GATE.acquire(max(24, 3 * h["mem"]) if playback else h["mem"])
    t0 = time.time()
    try:
        z = ["-Z", "unstable-options"]
        # always on: most harnesses mount stubs (recorded per harness in the evidence)
        z += ["-Z", "stubbing"]
        # reachability ("UNREACHABLE") classification costs one SAT call per check and is not
        # used by any verdict here (vacuity is guarded by cover witnesses and twins)
        base = ["cargo", "kani"] + z + ["--no-assertion-reach-checks", "--harness", h["fq"], "--exact",
                                        "--target-dir", tdir]
        henv = dict(ENV, **h.get("env", {})) if h.get("env") else None
        rc, out, dt, to = run(base + ["--only-codegen"], cwd=SLICE, timeout=900, mem_gb=8, env=henv)
        log = out
        if rc != 0:
            res.update(verdict="BUILD_ERROR", detail=out[-3000:])
            return res
        outs = [p for p in glob.glob(os.path.join(tdir, "**", "*.out"), recursive=True)
                if not p.endswith(".symtab.out") and p.endswith(f"{len(name)}{name}.out")]
        outs.sort(key=os.path.getmtime)
        outs = outs[-1:]
        if len(outs) != 1:
            res.update(verdict="BUILD_ERROR", detail=f"expected one goto binary, found {len(outs)}")
            return res
        uw, used = resolve_unwindset(outs[0], h["unwindset"])
        res["unwindset"] = used
        if any(k.startswith("UNMATCHED") for k in used):
            # the loop a bound was written for no longer exists under that name: the global
            # unwind applies (sound, only slower); recorded
            res["unwindset_unmatched"] = [k for k in used if k.startswith("UNMATCHED")]
        cmd = base[:]
        if playback:
            cmd += ["-Z", "concrete-playback", "--concrete-playback=print"]
        if uw:
            cmd += ["--cbmc-args", "--unwindset", uw]
        # a playback run needs --trace, which switches CBMC's formula slicing off: give it room
        rc, out, dt, to = run(cmd, cwd=SLICE, timeout=h["timeout"] * (3 if (tier == "thorough" or playback) else 1),
                              mem_gb=(max(24, 3 * h["mem"]) if playback else h["mem"]), env=henv)
        log += "\n=====\n" + " ".join(cmd) + "\n" + out
        res["wall_s"] = round(time.time() - t0, 1)
        pr = parse_kani(out)
        res.update(checks_total=pr["checks_total"], checks_failed=pr["checks_failed"],
                   covers=pr["covers"], unreachable=pr["unreachable"], undetermined=pr["undetermined"],
                   solver_s=pr["verif_time"], failed=pr["failed"], ssa_steps=pr["ssa_steps"], vccs=pr["vccs"],
                   vccs_remaining=pr["vccs_remaining"], sat_vars=pr["sat_vars"], sat_clauses=pr["sat_clauses"])
        if to:
            res["verdict"] = "TIMEOUT"
        elif pr.get("ice"):
            res["verdict"] = "ICE"
        elif pr["status"] is None:
            res["verdict"] = "OOM" if (pr.get("oom") or rc in (-9, 137)) else "TOOL_ERROR"
            res["detail"] = out[-2000:]
        elif pr["status"] == "FAILED" and pr["checks_failed"] == 0:
            # Kani says FAILED without a failed check: OOM / solver error / unsatisfied cover only
            if pr.get("oom"):
                res["verdict"] = "OOM"
            else:
                res["verdict"] = "FAILED_NOCHECK"
                res["detail"] = out[-2000:]
        else:
            res["verdict"] = pr["status"]
        if playback:
            res["playback_values"] = parse_playback(out)
    finally:
        GATE.release(mem)
        with open(logp, "w") as f:
            f.write(log if "log" in dir() else "")
        if not keep:
            shutil.rmtree(tdir, ignore_errors=True)
    return res


def parse_playback(out):
    """concrete values printed by --concrete-playback=print -> list of tests, each a list of byte
    lists. Kani prints one test per failed check AND per satisfied cover; all are returned and the
    caller replays them in turn."""
    tests = []
    for m in re.finditer(r"let concrete_vals: Vec<Vec<u8>> = vec!\[(.*?)\];\s*kani::concrete_playback_run", out, re.S):
        vals = []
        for vm in re.finditer(r"vec!\[([0-9, ]*)\]", m.group(1)):
            s = vm.group(1).strip()
            vals.append([int(x) for x in s.split(",") if x.strip()] if s else [])
        if vals not in tests:
            tests.append(vals)
    return tests or None


# ---------------------------------------------------------------------------------------------
# native replay of a counterexample on the REAL crate (real ntex-bytes etc.)
replay_lock = threading.Lock()


def replay_native(h, vals, profile_release=False):
    """returns (reproduced: bool|None, text). None = could not run."""
    with replay_lock:
        rdir = weave.weave_replay()
        enc = ";".join(",".join(f"{b:02x}" for b in v) if v else "-" for v in vals)
        env = dict(ENV, RUSTFLAGS="--cfg verif_replay", VERIF_REPLAY_HARNESS=h["name"], VERIF_REPLAY_VALUES=enc,
                   CARGO_TARGET_DIR=os.path.join(BUILD, "replay-target"))
        cmd = ["cargo", "test", "--offline", "--lib"]
        if profile_release:
            cmd.append("--release")
        cmd += ["--", "--exact", h.get("fq_replay", h["fq"]), "--nocapture", "--test-threads", "1"]
        rc, out, dt, to = run(cmd, cwd=rdir, timeout=1800, env=env)
    if to or "error: could not compile" in out or "error[E" in out:
        return None, out[-4000:]
    if "VERIF_REPLAY_COMPLETED_WITHOUT_FAILURE" in out:
        return False, out[-2000:]
    if "VERIF_REPLAY_ASSUME_VIOLATED" in out or "VERIF_REPLAY_VALUES_EXHAUSTED" in out or "VERIF_REPLAY_NOT_SELECTED" in out:
        return False, out[-2000:]
    if "panicked at" in out:
        return True, out[-3000:]
    return None, out[-3000:]


# ---------------------------------------------------------------------------------------------
def load_known():
    known, fixed = [], []
    if os.path.exists(KNOWN):
        with open(KNOWN) as f:
            for line in f:
                line = line.strip()
                if line.startswith("known:"):
                    d = dict(kv.split("=", 1) for kv in re.findall(r"(\w+=(?:\"[^\"]*\"|\S+))", line[6:]))
                    d = {k: v.strip('"') for k, v in d.items()}
                    d["_line"] = line
                    known.append(d)
                elif line.startswith("fixed:"):
                    fixed.append(line)
    return known, fixed


def match_known(prop, hname, failed, known):
    """a failed check is a known finding iff property, harness, site (function) and the check
    description all match one `known:` line. returns (matched_lines, unmatched_failed)"""
    matched, unmatched = [], []
    for fc in failed:
        hit = None
        for k in known:
            if k.get("property") != prop or k.get("harness") != hname:
                continue
            if k.get("site") and k["site"] not in fc["loc"]:
                continue
            if k.get("check") and k["check"] not in fc["desc"]:
                continue
            hit = k
            break
        if hit:
            matched.append((hit, fc))
        else:
            unmatched.append(fc)
    return matched, unmatched


# ---------------------------------------------------------------------------------------------
def main():
    ap = argparse.ArgumentParser()
    ap.add_argument("prop")
    ap.add_argument("--tier", default=os.environ.get("VERIF_TIER", "quick"), choices=["quick", "thorough"])
    ap.add_argument("--only", default=None, help="comma separated harness names")
    ap.add_argument("--jobs", type=int, default=int(os.environ.get("VERIF_JOBS", "14")))
    ap.add_argument("--keep", action="store_true")
    ap.add_argument("--list", action="store_true")
    args = ap.parse_args()
    prop = args.prop
    seed = int(os.environ.get("VERIF_SEED", "0") or 0)
    t_start = time.time()

    reg = load_registry()
    if args.list:
        for h in reg.values():
            print(h["name"], h["props"], h["tier"], h["expect"])
        return 0
    sel = [h for h in reg.values() if prop in h["props"] and (args.tier == "thorough" or h["tier"] == "quick")]
    if args.only:
        names = set(args.only.split(","))
        sel = [h for h in sel if h["name"] in names]
    if not sel:
        say(f"no harness registered for {prop}")
        return 2
    # VERIF_SEED only permutes launch order (nothing is sampled)
    sel.sort(key=lambda h: (-(h["mem"] * h["timeout"]), hash((h["name"], seed))))

    os.makedirs(BUILD, exist_ok=True)
    os.makedirs(EVID, exist_ok=True)
    meta = weave.weave_kani()
    with open(os.path.join(BUILD, "warm.log"), "a") as lg:
        warm_base(lg)

    say(f"[{prop}/{args.tier}] {len(sel)} harnesses, jobs={args.jobs}")
    results = []
    with cf.ThreadPoolExecutor(max_workers=args.jobs) as ex:
        futs = {ex.submit(run_harness, h, args.tier, False, args.keep): h for h in sel}
        for fu in cf.as_completed(futs):
            h = futs[fu]
            try:
                r = fu.result()
            except Exception as e:  # noqa
                r = {"name": h["name"], "verdict": "TOOL_ERROR", "detail": repr(e), "expect": h["expect"]}
            results.append(r)
            say(f"  {r['name']:34s} {r['verdict']:12s} expect={r['expect']:4s} wall={r.get('wall_s')}s "
                f"checks={r.get('checks_total')} failed={r.get('checks_failed')} "
                f"covers={sum(1 for v in r.get('covers', {}).values() if v == 'SATISFIED')}/{len(r.get('covers', {}))}")

    known, fixed = load_known()
    inconclusive, violations, known_hits = [], [], []
    byname = {h["name"]: h for h in sel}
    for r in results:
        h = byname[r["name"]]
        v = r["verdict"]
        if h["expect"] == "fail":
            # reachability twin
            if v == "FAILED":
                r["outcome"] = "twin-failed-as-required"
            elif v == "SUCCESS":
                r["outcome"] = "VACUOUS"
                inconclusive.append((r, "reachability twin passed: the harness family is vacuous"))
            else:
                inconclusive.append((r, v))
            continue
        if v == "SUCCESS":
            unsat = [c for c, st in r.get("covers", {}).items() if st != "SATISFIED"]
            if unsat:
                r["outcome"] = "VACUOUS"
                inconclusive.append((r, f"cover witnesses not satisfied: {unsat}"))
            else:
                r["outcome"] = "held"
            continue
        if v != "FAILED":
            inconclusive.append((r, v + " " + str(r.get("detail", ""))[-600:]))
            continue
        # FAILED: unwinding assertion => bound too small: my error, inconclusive
        if any("unwinding assertion" in fc["desc"] for fc in r["failed"]):
            inconclusive.append((r, "unwinding assertion failed: harness bound too small"))
            continue
        matched, unmatched = match_known(prop, r["name"], r["failed"], known)
        for k, fc in matched:
            known_hits.append((k, fc, r))
        if not unmatched:
            r["outcome"] = "known-finding-only"
            continue
        if os.environ.get("VERIF_FIRST_VIOLATION") and violations:
            # (evaluation of seeded changes only) one replay-confirmed violation decides the run
            r["outcome"] = "failed-not-replayed"
            say(f"    {r['name']}: failed as well; not replayed (a violation is already confirmed)")
            continue
        if os.environ.get("VERIF_NO_REPLAY"):
            for fc in unmatched[:6]:
                say(f"    [dev, no replay] {r['name']} failed check: {fc['desc']} @ {fc['loc'][-80:]}")
            inconclusive.append((r, "failed; replay disabled by VERIF_NO_REPLAY (development only)"))
            continue
        # replay the unlisted failure on the real crate
        say(f"  replaying {r['name']} on the real crate ...")
        pr = run_harness(h, args.tier, playback=True)
        vals = pr.get("playback_values")
        r["playback_values"] = vals
        if not vals:
            inconclusive.append((r, "failed, but no concrete playback values could be extracted"))
            continue
        rep, rep_rel, txt, used = None, None, "", None
        for one in vals[:8]:
            rep, txt = replay_native(h, one)
            rep_rel = None
            if rep is False:
                rep_rel, txt2 = replay_native(h, one, profile_release=True)
                if rep_rel:
                    txt = txt2
            used = one
            if rep or rep_rel or rep is None:
                break
        vals = used
        r["playback_values"] = vals
        r["replay"] = {"dev": rep, "release": rep_rel}
        rp = os.path.join(BUILD, "replays", f"{prop}_{r['name']}.json")
        os.makedirs(os.path.dirname(rp), exist_ok=True)
        with open(rp, "w") as f:
            json.dump({"property": prop, "harness": r["name"], "fq": r["fq"], "values": vals,
                       "failed_checks": r["failed"], "native_output_tail": txt,
                       "how": "VERIF_REPLAY_HARNESS/VERIF_REPLAY_VALUES, cargo test in build/replay (lib/check.py replay_native)"},
                      f, indent=1)
        if rep or rep_rel:
            r["outcome"] = "VIOLATION"
            violations.append((r, rp, unmatched))
        elif rep is None:
            inconclusive.append((r, "replay crate did not build/run: " + txt[-800:]))
        else:
            inconclusive.append((r, "counterexample does not reproduce on the real crate (encoding/model error)"))

    # model-vs-implementation validation: the counterexample of every reachability twin (a trace
    # through the encoding that the solver produced) is replayed on the REAL crate, where the twin's
    # assertion must fail as well. Cheap twins only in the quick tier.
    traces_validated = 0
    twin_replays = []
    for r in results:
        if r.get("outcome") != "twin-failed-as-required" or os.environ.get("VERIF_NO_REPLAY"):
            continue
        # which twins are replayed is fixed by annotation (`//@ twin_replay: yes`), not by timing, so that
        # every run of a tier validates the same traces
        tr_mode = byname[r["name"]].get("twin_replay", "no")
        if not (tr_mode == "yes" or (tr_mode == "thorough" and args.tier == "thorough")) or os.environ.get("VERIF_TWIN_REPLAY_MAX_S") == "0":
            twin_replays.append({"harness": r["name"], "replayed": False, "why": "not annotated for replay (cost)"})
            continue
        h = byname[r["name"]]
        pr = run_harness(h, args.tier, playback=True)
        ok = False
        broken = None
        for one in (pr.get("playback_values") or [])[:4]:
            rep, _txt = replay_native(h, one)
            if rep:
                ok = True
                break
            if rep is None:
                broken = _txt[-600:]
                break
        if broken is not None:
            twin_replays.append({"harness": r["name"], "replayed": False, "why": "replay crate did not build/run"})
            inconclusive.append((r, "replay crate did not build/run: " + broken))
            continue
        twin_replays.append({"harness": r["name"], "replayed": True, "reproduced_on_real_crate": ok})
        if ok:
            traces_validated += 1
        else:
            inconclusive.append((r, "the twin's counterexample does not reproduce on the real crate: model and implementation disagree"))
    # violations replayed and confirmed natively are validated traces as well
    traces_validated += len(violations)

    # evidence -------------------------------------------------------------------------------
    passed = [r for r in results if r.get("outcome") == "held"]
    twins = [r for r in results if r.get("outcome") == "twin-failed-as-required"]
    samples = []
    for r in sorted(results, key=lambda r: r["name"]):
        h = byname[r["name"]]
        samples.append({
            "harness": r["fq"] if "fq" in r else r["name"], "verdict": r["verdict"], "outcome": r.get("outcome"),
            "expect": h["expect"], "functions_encoded": h["functions"], "bounds": h["bounds"],
            "global_unwind": None, "unwindset": r.get("unwindset"), "assumes": h["assumes"],
            "cbmc_checks": r.get("checks_total"), "cbmc_failed": r.get("checks_failed"),
            "cbmc_unreachable": r.get("unreachable"), "cover_witnesses": r.get("covers"),
            "solver_s": r.get("solver_s"), "wall_s": r.get("wall_s"), "desc": h["desc"],
            "ssa_steps": r.get("ssa_steps"), "vccs": r.get("vccs"), "sat_variables": r.get("sat_vars"), "sat_clauses": r.get("sat_clauses"),
        })
    ev = {
        "property_id": prop, "tier": args.tier, "seed": seed, "level": "model_checking",
        "coverage": {
            "evaluations": len(results),
            "distinct_nontrivial": len(passed),
            "rule": "one evaluation = one Kani proof harness (one or more SAT queries over the bit-precise encoding of the "
                    "real functions for ALL inputs inside the stated bounds); counted non-trivial iff verdict SUCCESS, "
                    "unwinding assertions passed, and every kani::cover! witness of the harness is SATISFIED; "
                    "reachability twins (expect=fail) are not counted",
            "samples": samples,
            # model-checking keys, all measured from this run's CBMC output:
            #   states      = verification conditions generated (one per checked property instance at one
            #                 symbolic program state of the unwound program), summed over the harnesses that held
            #   transitions = SSA steps of the unwound programs (symbolic execution steps encoded for the solver)
            #   traces_validated_against_impl = solver-produced traces (counterexamples of reachability twins,
            #                 confirmed violations) re-run on the REAL crate with the same outcome
            "states": sum((r.get("vccs") or 0) for r in passed),
            "transitions": sum((r.get("ssa_steps") or 0) for r in passed),
            "traces_validated_against_impl": traces_validated,
            "twin_replays": twin_replays,
            "sat_variables": sum((r.get("sat_vars") or 0) for r in passed),
            "sat_clauses": sum((r.get("sat_clauses") or 0) for r in passed),
            "obligations": sum((r.get("checks_total") or 0) for r in passed),
            "discharged": sum((r.get("checks_total") or 0) - (r.get("checks_failed") or 0) for r in passed),
            "reachability_twins_failed_as_required": len(twins),
            "solver_time_s": round(sum((r.get("solver_s") or 0) for r in results), 1),
            "engine": "Kani 0.68.0 / CBMC 6.11.0 / CaDiCaL; unwinding assertions on",
            "sources_sha256": meta["sources_sha256"],
            "woven_lines": meta["appended_lines"],
            "woven_substitutions": meta.get("substitutions"),
            "extracted_items_sha256": meta.get("extracted_items_sha256"),
            "known_findings_matched": [k["_line"] for k, _fc, _r in known_hits],
            "inconclusive": [{"harness": r["name"], "why": why[:300]} for r, why in inconclusive],
            "exhaustive": False,
        },
        "assumptions": [
            "verification models of ntex-bytes (pointer/len views, flat BytePages), std Vec in packet list fields "
            "(fixed capacity 4, overflow = reported failure), ntex-codec traits; see DESIGN.md section 3",
            "bounds stated per harness in coverage.samples[].bounds; inputs outside them are outside the claim",
            "x86_64, overflow checks on (dev profile semantics), allocation never fails",
        ],
        "wall_s": round(time.time() - t_start, 1),
        "violations": len(violations),
    }
    with open(os.path.join(EVID, f"{prop}.json"), "w") as f:
        json.dump(ev, f, indent=1)

    seen = set()
    for k, fc, r in known_hits:
        if k["_line"] in seen:
            continue
        seen.add(k["_line"])
        say(f"KNOWN-FINDING: property={prop} {k.get('what', k['_line'])}")
    for r, rp, unmatched in violations:
        say(f"VIOLATION property={prop} replay={rp}")
        for fc in unmatched[:5]:
            say(f"    failed check: {fc['desc']} @ {fc['loc']}")
    for r, why in inconclusive:
        say(f"INCONCLUSIVE harness={r['name']}: {why[:400]}")
    say(f"[{prop}/{args.tier}] held={len(passed)} twins={len(twins)} known={len(seen)} "
        f"violations={len(violations)} inconclusive={len(inconclusive)} wall={ev['wall_s']}s")
    if violations:
        return 1
    if inconclusive:
        return 2
    return 0


if __name__ == "__main__":
    try:
        rc = main()
    except SystemExit:
        raise
    except BaseException as e:  # an internal error of the machinery is never a verdict
        import traceback
        traceback.print_exc()
        print(f"INCONCLUSIVE internal error: {e!r}")
        rc = 2
    sys.exit(rc)
