#!/usr/bin/env python3
"""replay.py <replay.json>: re-run a recorded counterexample natively on the REAL crate.
Exit 1 if the harness fails there (violation reproduces), 0 if it does not."""
import json
import os
import sys

sys.path.insert(0, os.path.dirname(os.path.abspath(__file__)))
import check  # noqa
import weave  # noqa


def main():
    d = json.load(open(sys.argv[1]))
    weave.weave_kani()
    reg = check.load_registry()
    h = reg[d["harness"]]
    rep, txt = check.replay_native(h, d["values"])
    if rep is False:
        rep, txt2 = check.replay_native(h, d["values"], profile_release=True)
        txt = txt2 if rep else txt
    print(txt[-2500:])
    print("REPRODUCED" if rep else ("NOT REPRODUCED" if rep is False else "COULD NOT RUN"))
    return 1 if rep else (0 if rep is False else 2)


if __name__ == "__main__":
    sys.exit(main())
