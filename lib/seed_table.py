#!/usr/bin/env python3
"""seed_table.py: (re)write seeded/README.md from the meta.json files (what each seeded change breaks,
what it needs in order to manifest, and which of my checks caught it)."""
import glob
import json
import os

VERIF = os.path.dirname(os.path.dirname(os.path.abspath(__file__)))
rows = []
for d in sorted(glob.glob(os.path.join(VERIF, "seeded", "*"))):
    mp = os.path.join(d, "meta.json")
    if not os.path.exists(mp):
        continue
    m = json.load(open(mp))
    name = os.path.basename(d)
    title = ""
    np_ = os.path.join(d, "notes.md")
    if os.path.exists(np_):
        with open(np_) as f:
            for line in f:
                if line.startswith("#"):
                    title = line.lstrip("# ").strip()
                    break
    mc = m.get("my_checks") or {}
    caught = []
    status = "not evaluated"
    for prop, r in mc.items():
        if r.get("exit") == 1 and r.get("violations"):
            caught += r.get("failing_harnesses", [])
            status = "DETECTED (VIOLATION, replay-confirmed)"
        elif status == "not evaluated":
            status = "missed (exit %s)" % r.get("exit") if r.get("exit") in (0,) else "inconclusive (exit %s)" % r.get("exit")
    if m.get("valid") is False:
        status = "no longer valid: " + m.get("invalidated", "")[:140]
    rows.append((name, m.get("property"), title, status, ", ".join(sorted(set(caught)))[:160], m.get("needs", "")))
with open(os.path.join(VERIF, "seeded", "README.md"), "w") as f:
    f.write("# Seeded changes\n\nEach directory: `patch.diff` (applies to /repo HEAD), `demo.rs` (fails with the change, passes without), "
            "`notes.md` (the sub-agent's description), `meta.json` (my confirmation: suite still green with the change, demo fails/passes; "
            "and the outcome of my checks, `lib/seed_eval.py`).\nNone of these changes is ever committed to /repo.\n\n")
    f.write("| change | property | what | my checks | failing harnesses |\n|---|---|---|---|---|\n")
    for name, prop, title, status, caught, needs in rows:
        f.write(f"| {name} | {prop} | {title} | {status} | {caught} |\n")
print(len(rows), "rows")
