#!/usr/bin/env python3
"""setup: build the framework from files on disk only (offline), validate the verification models.
 1. weave the scratch copy of /repo/src
 2. warm the Kani target directory (dependencies compiled once)
 3. run the repository's OWN unit tests of the woven files against the model crates (native)
 4. differential test: model ntex-bytes vs real ntex-bytes, UTF-8 validators vs std
 5. pre-build the native replay crate (real ntex-mqtt + harness modules) so that a counterexample
    replay does not pay for the dependency build
Exit code != 0 if any step fails."""
import os
import shutil
import subprocess
import sys
import time

VERIF = os.path.dirname(os.path.dirname(os.path.abspath(__file__)))
sys.path.insert(0, os.path.join(VERIF, "lib"))
import check  # noqa
import weave  # noqa

ENV = dict(os.environ, CARGO_NET_OFFLINE="true", CARGO_TERM_COLOR="never")


def step(name, cmd, cwd, env=None, timeout=3000):
    t0 = time.time()
    p = subprocess.run(cmd, cwd=cwd, env=env or ENV, stdout=subprocess.PIPE, stderr=subprocess.STDOUT, text=True,
                       timeout=timeout)
    tail = "\n".join(p.stdout.splitlines()[-15:])
    print(f"[setup] {name}: rc={p.returncode} {time.time() - t0:.0f}s")
    if p.returncode != 0:
        print(tail)
        sys.exit(1)
    return p.stdout


def main():
    os.makedirs(check.BUILD, exist_ok=True)
    weave.weave_kani()
    shutil.rmtree(check.base_target(), ignore_errors=True)
    with open(os.path.join(check.BUILD, "warm.log"), "w") as lg:
        check.warm_base(lg)
    if not os.path.exists(os.path.join(check.base_target(), ".warm")):
        print(open(os.path.join(check.BUILD, "warm.log")).read()[-3000:])
        print("[setup] warming the Kani target directory failed")
        sys.exit(1)
    print("[setup] kani base target warmed")
    out = step("repository unit tests of the woven files against the models",
               ["cargo", "test", "--offline", "--lib"], check.SLICE,
               env=dict(ENV, CARGO_TARGET_DIR=os.path.join(check.BUILD, "slice-native-target")))
    print("        " + [l for l in out.splitlines() if l.startswith("test result")][-1])
    mc = os.path.join(VERIF, "kani", "modelcheck")
    lock = os.path.join(mc, "Cargo.lock")
    if not os.path.exists(lock):
        shutil.copy(os.path.join(weave.REPO, "Cargo.lock"), lock)
    out = step("differential model validation (model vs real ntex-bytes, UTF-8 validators vs std)",
               ["cargo", "test", "--offline", "--release"], mc,
               env=dict(ENV, CARGO_TARGET_DIR=os.path.join(check.BUILD, "modelcheck-target")))
    print("        " + [l for l in out.splitlines() if l.startswith("test result")][1])
    rdir = weave.weave_replay()
    step("pre-build of the native replay crate (real ntex-mqtt + harness modules)",
         ["cargo", "test", "--offline", "--lib", "--no-run"], rdir,
         env=dict(ENV, RUSTFLAGS="--cfg verif_replay", CARGO_TARGET_DIR=os.path.join(check.BUILD, "replay-target")))
    print("[setup] done")


if __name__ == "__main__":
    main()
